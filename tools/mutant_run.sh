#!/bin/bash
# usage: tools/mutant_run.sh <patch.diff> <ID>... ; runs checks against a scratch copy of /repo with the patch
set -e
patch=$(realpath "$1"); shift
d=$(mktemp -d /tmp/mut.XXXXXX)
trap 'rm -rf "$d"' EXIT
git -C /repo archive HEAD | tar -x -C "$d"
git -C "$d" init -q 2>/dev/null || true
(cd "$d" && patch -p1 -s < "$patch")
rc=0
for id in "$@"; do
  GEMATO_SRC="$d" /verif/check "$id" ${TIER:+--tier $TIER} 2>&1 | grep -E "VIOLATION|KNOWN|MACHINERY|^C[0-9]+ " | cut -c1-300 | sort | uniq -c | sort -rn | head -8 || true
done
