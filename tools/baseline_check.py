#!/venv/bin/python
"""Run the repository's suite with the verification guard OFF and compare with BASELINE.json."""
import json, os, subprocess, sys, tempfile, xml.etree.ElementTree as ET
base = json.load(open('/root/.vp/BASELINE.json'))
env = dict(os.environ)
env.pop('GEMATO_VERIF', None)
with tempfile.TemporaryDirectory() as d:
    x = os.path.join(d, 'j.xml')
    subprocess.run(['/venv/bin/python', '-m', 'pytest', '-ra', '-q', '-p', 'no:cacheprovider',
                    '--timeout=900', '--continue-on-collection-errors', '--junitxml=' + x],
                   cwd='/repo', env=env, stdout=subprocess.DEVNULL, stderr=subprocess.DEVNULL)
    passed = set()
    for tc in ET.parse(x).getroot().iter('testcase'):
        if not list(tc):
            passed.add('%s::%s' % (tc.get('classname'), tc.get('name')))
want = set(base['stable_pass'])
missing = sorted(want - passed)
print('baseline stable_pass=%d passed_now=%d missing=%d' % (len(want), len(passed), len(missing)))
for m in missing[:20]:
    print('  MISSING', m)
sys.exit(1 if missing else 0)
