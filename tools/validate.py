#!/opt/veriftools/pyvenv/bin/python
import json, jsonschema, glob, sys
ok = True
man = json.load(open('/verif/MANIFEST.json'))
jsonschema.validate(man, json.load(open('/root/.vp/MANIFEST.schema.json')))
sch = json.load(open('/root/.vp/EVIDENCE.schema.json'))
ids = [l and json.loads(l)['id'] for l in open('/verif/properties.jsonl')]
claimed = [c['property_id'] for c in man['checks']]
na = [c['property_id'] for c in man.get('not_applicable', [])]
assert sorted(claimed + na) == sorted(ids), (sorted(set(ids) - set(claimed + na)), [x for x in claimed if x in na])
for c in man['checks']:
    f = c['evidence_file']
    try:
        ev = json.load(open(f))
        jsonschema.validate(ev, sch)
        assert ev['level'] == c['level_claimed']['category'], (f, ev['level'])
    except Exception as e:
        ok = False
        print('EVIDENCE PROBLEM', f, str(e)[:200])
print('manifest ok; claimed', len(claimed), 'n/a', len(na), 'evidence ok' if ok else 'evidence problems')
sys.exit(0 if ok else 1)
