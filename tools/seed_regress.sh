#!/bin/bash
# every archived seeded change against the check of its property; prints CAUGHT / MISSED per seed
cd /verif
for sd in seeded/*/; do
  name=$(basename $sd); id=${name:0:3}
  d=$(mktemp -d /tmp/mut.XXXXXX)
  git -C /repo archive HEAD | tar -x -C "$d"
  if ! (cd "$d" && patch -p1 -s < "/verif/$sd/patch.diff" >/dev/null 2>&1); then echo "$name: PATCH-DOES-NOT-APPLY"; rm -rf "$d"; continue; fi
  out=$(GEMATO_SRC="$d" ./check "$id" 2>&1)
  n=$(echo "$out" | grep -c "^VIOLATION property=$id")
  cl=$(echo "$out" | grep "^VIOLATION property=$id" | sed -E 's/.*clause=//' | sort | uniq -c | sort -rn | head -2 | awk '{printf "%s x%s ", $2, $1}')
  if [ "$n" -gt 0 ]; then echo "$name: CAUGHT ($cl)"; else echo "$name: MISSED  $(echo "$out" | grep -E 'MACHINERY' | head -1)"; fi
  rm -rf "$d"
done
rm -f /verif/replays/*.json
