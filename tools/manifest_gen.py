#!/venv/bin/python
"""Regenerates MANIFEST.json from the table below (kept in one place so it is always valid)."""
import json
props = [json.loads(l) for l in open('/verif/properties.jsonl')]
T = 'TLA+ model checking (TLC) + two-way trace validation against the real code'
C = {}
C['C01'] = ("model_checking",
 "TLC exhaustively checks the implementation-shaped verifier model (Verify.tla: families flat and nest, all last-mtime values, strict and keep-going) against Glep74!Matches; exported behaviours (sampled in quick, more in thorough) are replayed into the real verifier (library + CLI) and, together with seeded random trees with 0-3 mutations, judged by TLC with the same operators (TraceVerify.tla).",
 "Trusted: TLC, harness projection and independent Manifest reader. Exhaustive only within the bounded families (2-3 names, depth 3); beyond that sampling. Lenient zones of DESIGN 5.1 are not judged.")
C['C02'] = ("model_checking",
 "Verify.tla carries the invariant 'only chain-accepted Manifests are ever loaded' (C02_Chain, C02_Broken), checked exhaustively on the nest family; on the real code, chains of depth 1..5 (all compression formats, second Manifest per directory) are attacked by change/add/remove/DIST edits with recomputation of levels j..k by the harness writer and observed through all five APIs; TLC judges each call against Glep74!Accepted / AcceptedUp.",
 "Attacker model = harness writer; lookups returning an entry object are mapped back to full paths through the loader's public loaded_manifests map.")
C['C04'] = ("model_checking",
 "Framing.tla (the loader's line state machine) is checked by TLC against the declarative FramingRef!RefOutcomes for ALL line-class sequences up to length 5 (quick) / 6 (thorough); the same space (exhaustive up to length 4 / 5, sampled beyond) is concretised and loaded by the real ManifestFile.load with and without verification and judged by TLC; Manifests genuinely clear-signed by gpg and textually mutated are loaded through SystemGPGEnvironment and compared with the cleartext gpg --decrypt authenticates.",
 "Line classification of concrete texts is the harness's abstraction function; gpg 2.2.40 is the OpenPGP oracle; END-SIGNATURE without final newline and CR inside a line are lenient zones.")
C['C07'] = ("model_checking",
 "Verify.tla in keep-going mode: invariant C07_Exact (bag of reported paths = Offending, each once) over all subsets of simultaneous discrepancies in the bounded families (TLC exhibits the historical short-circuit defect when ShortCircuit=TRUE); replayed behaviours and seeded random trees with 0-3 discrepancies run through assert_directory_verifies with recording handlers (policies F/T/N/mixed) and `gemato verify -k`, judged by TLC (Missed/Spurious/Duplicate/Result clauses).",
 "Order of reports not judged; trees whose Manifest chain is itself broken only checked for false acceptance.")
C['C08'] = ("model_checking",
 "PathCodec.tla: interval table partitioning 0..0x10FFFF (partition proved by TLC), Enc/Dec over code points with round-trip, separator-freeness, canonical fixed point and UTF-8 storability checked for all strings over every interval edge and the hex-like letters (length <=2 quick, <=3 thorough). The exported table is then compared with the real codec on EVERY code point in four contexts (alone, between hex-like neighbours), random entry lists go through the real writer/parser in memory and through plain/gz/bz2/lzma/xz files, and every accepted text from C09's generators is checked for the canonical fixed point; TLC (TraceCodec.tla) judges all records.",
 "Encode/decode fidelity is only partly a model-checking question: the spec supplies the case analysis (table, escape forms) and TLC the per-case verdict; exhaustiveness over code points is executed on the real codec. Python's str.split()/isspace() is taken as the line splitter.")
C['C09'] = ("model_checking",
 "EntryLine.tla: the line grammar as a decision table (9 tags x up to 3-4 fields x 11 field shapes): TLC checks the transcription of the parser against MustReject/MustAccept and totality (and exhibits the two historical defects when their switches are off); every table case is concretised several times and loaded by the real parser, plus one-character edits of valid lines and every escape form over its full value range (\\x 256, \\u 65536, \\U all values to 0x110000 (stride 7 in quick) and edges up to 0xFFFFFFFF); TLC (TraceEntryLine/TraceCodec) judges each load.",
 "The classifier of concrete fields (harness) is the abstraction function. Lenient: numeric spellings int() accepts, non-padded timestamps, surrogate escapes, texts containing armor/dash-escaped lines (C04) or exotic line separators.")
U = "TraceUpdate.tla judges every recorded update history of the real loader/CLI with UpdateRef's operators: "
C['C03'] = ("model_checking", U + "ExactCover (each responsible file covered exactly once with true size and digests for exactly the requested hash set, no dangling entry, chain references true) and Glep74!MatchesStrict on the post-state, plus a fresh verification by a new loader. Histories start from every prior Manifest state in the quantifier (stale, duplicates with equal/sub/superset hash sets, parent+child entries, unregistered valid/invalid sub-Manifests, two Manifests per directory incl. same-directory reference, all compression formats), whole-tree and sub-directory updates, all three profiles, library and CLI.",
 "Conditional on completion (failed updates are C18/C10's business). Known finding F14 (identical duplicates) is recognised by signature.")
C['C10'] = ("model_checking", U + "nothing changes on disk (bytes, mtime_ns) before save_manifests nor by lookups/verification; no non-Manifest file is ever created/modified/deleted; DIST set, IGNORE set, TIMESTAMP (unless refreshed), tags of surviving file entries and all entries outside the updated directory (MANIFEST chain excepted) are preserved.",
 "Writes are observed as raw snapshots of the whole tree before/after each operation (no hook). CLI update of the whole tree refreshes an existing TIMESTAMP by design.")
C['C12'] = ("model_checking", U + "a second identical update on the unchanged tree changes no byte and no mtime; groups of runs on copies of one tree with shuffled directory enumeration (os.scandir interposed) and permuted old entries (forced rewrite) must write byte-identical Manifests when sorting is on and there is at most one Manifest per directory.",
 "Canon is judged on Manifests written in both runs; with permuted old entries every Manifest is force-rewritten (an unrewritten Manifest legitimately keeps its order).")
C['C13'] = ("model_checking", U + "the watermark rule on every Manifest (re)written by a save (compressed iff uncompressed size >= watermark, already compressed ones keep their format, new ones use the requested format, top-level Manifest never compressed, no second file for one logical Manifest) with watermarks at every Manifest size -1/0/+1, and transparency groups: the same tree under four assignments of plain/gz/bz2/lzma/xz to its sub-Manifests must give identical verification and lookup observations.",
 "old-ebuild package Manifests (EBUILD entries) are exempt from the iff (profile rule, C19).")
C['C11'] = ("model_checking",
 "Incremental.tla: two Manifest replicas over one tree, clock in half seconds, environment edits with explicit mtimes (older/equal/newer than the previous TIMESTAMP), modifications interleaved between the per-file steps of a running update, zone offsets -1/0/+1; TLC checks IncEqualsFull and TimestampNotLate over all interleavings (and exhibits the historical local-time defect with UtcRead=FALSE). The real CLI is driven on two copies (update --incremental vs update) for 1-3 rounds with os.utime-controlled mtimes incl. sub-second offsets, a virtual clock, a modification injected after the k-th hashed file, TZ in {UTC, east, west}; TraceIncremental.tla judges every file of every round.",
 "Spec->code replay of individual TLC behaviours is not implemented for this property (the seeded histories draw from the same action alphabet); mtime == TIMESTAMP exactly is lenient.")
C['C05'] = ("model_checking",
 "GpgStatus.tla: the status-line scanner of verify_file against GpgRef!AcceptSig (good, valid, validity >= marginal, no EXPKEYSIG/REVKEYSIG, exit 0), failure kinds and monotonicity in the trust level, for ALL sequences up to length 4 (quick) / 5 (thorough) over gpg's vocabulary x 3 exit codes (TLC exhibits the historical TRUST_FULL defect). The same sequences are replayed into the real SystemGPGEnvironment.verify_file and ManifestFile.load with subprocess.Popen substituted; with real gpg every key state x owner-trust level is run through IsolatedGPGEnvironment (real status output recorded and judged, environment model checked as drift), a signed Manifest is tampered character by character, and `gemato verify -K -R` is run for every combination of -s, -P, key-file content and user-keyring content with byte snapshots of the user keyring; TraceGpg.tla judges every record.",
 "gpg 2.2.40 is the oracle for real runs; network key refresh is out of reach offline (-R always); signing-subkey-without-binding states are not generated.")
C['C14'] = ("model_checking",
 "Signing.tla models save_manifests' sign decision for the top-level Manifest (also when it is renamed by (de)compression during the save), the sub-Manifests and a failing signer over the full option matrix; TLC checks signed-iff-wanted, sub-Manifests-never-signed and failure-reported (and exhibits the historical rename defect). Every combination of sign option x originally signed x key id x usable key x renamed top-level x sub-Manifest format x hostile names is run on the real loader with real gpg; the written files are classified line by line and judged by TraceSigning.tla with FramingRef (the C04 reference), re-verified in a separate verifier home, and the authenticated cleartext is compared with the in-memory entries.",
 "gpg 2.2.40 and its key handling are trusted; unusable key = public-key-only home or unknown key id (expired secret keys not generated).")
C['C15'] = ("model_checking",
 "FindTop.tla: the upward walk of find_top_level_manifest against the declarative FindTopRef!OutermostOf for ALL chains of 3 (quick) / 4 (thorough) levels x Manifest none/plain/compressed x IGNORE none/path/ancestor/sibling/look-alike x device boundary x starting level x allow_compressed x allow_xdev; the same chains (exhaustive to depth 2/3, sampled to depth 6) are built as real directory chains with hostile names and real Manifest files in every compression format and run through the real function; TraceFindTop.tla judges each result.",
 "Device boundaries are simulated by rewriting st_dev in what gemato.find_top_level sees from os.stat/os.fstat.")
C['C16'] = ("model_checking",
 "Walker.tla models the directory walker shared by verification, update and the unregistered-Manifest scan as a stack of logical directories with their ancestor identities; TLC checks for ALL symlink graphs on 4 directories (up to 3 links, an IGNOREd edge, a foreign directory, one-file-system on/off) that the ancestor chain stays bounded (termination as safety) and that the outcome is the one WalkRef!Expected allows (loop iff a cycle is reachable through unpruned edges; cross-device iff a foreign directory is reachable). Random graphs of 2-6 directories with real symlinks and a real second file system (/dev/shm) are run through the three real walkers under a watchdog and judged by TraceWalk.tla.",
 "Requires /dev/shm on another device for the cross-device part (skipped otherwise). IGNORE is only placed on edges with a unique logical path.")
man = {
 "version": 1,
 "setup_cmd": "cd /verif && ./tools/setup.sh",
 "hooks": {"guard": "GEMATO_VERIF", "enable": "none needed: instrumentation is external (API wrappers and os-level interposition installed inside the harness process); checks import gemato from /repo's working tree (or GEMATO_SRC)", "baseline_off_cmd": "cd /repo && env -u GEMATO_VERIF /venv/bin/python -m pytest -ra -q -p no:cacheprovider --timeout=900 --continue-on-collection-errors", "source_commits": [], "add_only": True},
 "engines": [{"name": "tlc-trace-and-model", "path": "/verif/check", "serves_properties": sorted(C), "kind_free_text": "TLA+ specs under /verif/specs checked by TLC; bounded Layer-A models + trace validation of recorded executions of the real code (both directions)"}],
 "checks": [], "not_applicable": [],
 "notes": "see DESIGN.md; known_findings.json lists fixed/known defects"}
for pid in sorted(C):
    cat, text, note = C[pid]
    man['checks'].append({"property_id": pid, "quick_cmd": "./check %s --tier quick" % pid,
      "thorough_cmd": "./check %s --tier thorough" % pid, "evidence_file": "/verif/evidence/%s.json" % pid,
      "replay_cmd_template": "./check %s --replay {path}" % pid, "engine": "tlc-trace-and-model",
      "level_claimed": {"category": cat, "text": text, "design_ref": "DESIGN.md Part II " + pid},
      "level_note": note, "technique": T})
for p in props:
    if p['id'] not in C:
        man['not_applicable'].append({"property_id": p['id'], "reason": "check under construction in this session (planned; see DESIGN.md Part II) - not yet claimed"})
json.dump(man, open('/verif/MANIFEST.json', 'w'), indent=1)
print('claimed', sorted(C))
