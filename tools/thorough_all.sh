#!/bin/bash
# run every thorough tier once, sequentially; prints one summary line per property
cd "$(dirname "$0")/.."
for id in C14 C17 C06 C16 C15 C20 C10 C13 C12 C03 C08 C09 C04 C05 C18 C19 C11 C01 C07 C02; do
  s=$(date +%s)
  out=$(timeout 10800 ./check $id --tier thorough 2>&1)
  rc=$?
  echo "$id rc=$rc $(( $(date +%s) - s ))s :: $(echo "$out" | grep -E "^C[0-9]+ thorough|MACHINERY" | tail -1 | cut -c1-200) :: $(echo "$out" | grep -c '^VIOLATION') violations"
  echo "$out" | grep -E "^VIOLATION|^DRIFT|KNOWN" | sed -E 's/replay=[^ ]+ //' | cut -c1-160 | sort | uniq -c | sort -rn | head -5
done
