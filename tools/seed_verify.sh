#!/bin/bash
# usage: tools/seed_verify.sh <seed-dir> [check ids...]
# Confirms a seeded change: applies to a scratch copy of /repo HEAD, runs the repository suite
# (must equal baseline), runs demo.py on original (PASS) and changed (FAIL), then the named checks.
sd=$(realpath "$1"); shift
d=$(mktemp -d /tmp/mut.XXXXXX); o=$(mktemp -d /tmp/orig.XXXXXX)
trap 'rm -rf "$d" "$o"' EXIT
git -C /repo archive HEAD | tar -x -C "$d"
git -C /repo archive HEAD | tar -x -C "$o"
(cd "$d" && patch -p1 -s < "$sd/patch.diff") || { echo "PATCH DOES NOT APPLY"; exit 3; }
echo "== demo on original:"; (cd "$o" && PYTHONPATH="$o" timeout 300 /venv/bin/python "$sd/demo.py" 2>&1 | tail -2; echo "exit=${PIPESTATUS[0]}")
echo "== demo on changed:";  (cd "$d" && PYTHONPATH="$d" timeout 300 /venv/bin/python "$sd/demo.py" 2>&1 | tail -2; echo "exit=${PIPESTATUS[0]}")
echo "== suite on changed:"
(cd "$d" && PYTHONPATH="$d" /venv/bin/python -m pytest -q -p no:cacheprovider --timeout=900 --junitxml="$d/j.xml" >/dev/null 2>&1; /venv/bin/python - "$d/j.xml" <<'PY'
import json, sys, xml.etree.ElementTree as ET
base=set(json.load(open('/root/.vp/BASELINE.json'))['stable_pass'])
passed=set('%s::%s'%(tc.get('classname'),tc.get('name')) for tc in ET.parse(sys.argv[1]).getroot().iter('testcase') if not list(tc))
print('suite: passed=%d missing_from_baseline=%d'%(len(passed),len(base-passed)), sorted(base-passed)[:5])
PY
)
for id in "$@"; do
  echo "== check $id on changed:"
  GEMATO_SRC="$d" /verif/check "$id" ${TIER:+--tier $TIER} 2>&1 | grep -E "VIOLATION|KNOWN|MACHINERY|^C[0-9]+ |DRIFT" | sed -E 's/replay=[^ ]+ //' | cut -c1-200 | sort | uniq -c | sort -rn | head -8
done
rm -f /verif/replays/*.json
