#!/bin/bash
# offline setup: syntax-check every specification with SANY, byte-compile the harness
set -e
cd /verif
/venv/bin/python -m compileall -q harness >/dev/null
cd specs
fail=0
for f in *.tla; do
  out=$(java -cp /opt/veriftools/tla/tla2tools.jar:/opt/veriftools/tla/CommunityModules-deps.jar tla2sany.SANY "$f" 2>&1) || { echo "SANY failed: $f"; echo "$out" | tail -5; fail=1; }
  if echo "$out" | grep -q -E "Semantic errors|Parse Error|Fatal error"; then echo "SANY errors in $f"; echo "$out" | tail -8; fail=1; fi
done
mkdir -p /verif/evidence /verif/replays
exit $fail
