SPECIFICATION Spec
