----------------------------- MODULE TraceFault -----------------------------
(***************************************************************************)
(* Trace validation for C06: one record per (tree, operation, call index,  *)
(* errno): [op, func, errno, k, ncalls, clean, obs, changed, transparent]  *)
(* op: verify | update;  clean: outcome without fault;  obs: outcome with  *)
(* the k-th file-system call failing;  changed: files on disk differ after  *)
(* the faulted update;  transparent: the interposer alone changed nothing. *)
(***************************************************************************)
EXTENDS Naturals, Sequences, TLC, Json, IOUtils
Trace == ndJsonDeserialize(IOEnv.TRACE_FILE)
VARIABLES i, done
vars == <<i, done>>

Clauses(r) ==
    IF ~r.transparent THEN {}          \* reported as machinery failure by the harness
    ELSE (IF r.obs = "ok" THEN {IF r.op \in {"verify", "verifyk"} THEN "C06.VerifySucceededDespiteFault"
                                ELSE IF r.op = "findtop" THEN "C06.TopLevelSearchSucceededDespiteFault"
                                ELSE "C06.UpdateSucceededDespiteFault"} ELSE {})
         \cup (IF r.op = "update" /\ r.changed THEN {"C06.WroteDespiteFault"} ELSE {})
         \cup (IF r.obs = "hang" THEN {"C06.Hang"} ELSE {})

Init == i \in 1..Len(Trace) /\ done = FALSE
Next == /\ ~done /\ done' = TRUE /\ i' = i
        /\ LET r == Trace[i] IN
             /\ \A c \in Clauses(r) : PrintT(<<"V", r.id, c>>)
             /\ PrintT(<<"K", r.id>>)
Spec == Init /\ [][Next]_vars
=============================================================================
