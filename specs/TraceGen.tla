------------------------------ MODULE TraceGen ------------------------------
(***************************************************************************)
(* Trace validation for C20: the fast generator scripts as a second        *)
(* program writing the same abstract state.                                *)
(*  [script, end, s1 (after the script), verify1, s1u (after `gemato update *)
(*   -p ebuild` on the untouched output), upd_end, s2 (after edits + update),*)
(*   verify2, upd2_end, sub (path verified / updated)]                     *)
(***************************************************************************)
EXTENDS UpdateRef, Json, IOUtils
Trace == ndJsonDeserialize(IOEnv.TRACE_FILE)
VARIABLES i, done
vars == <<i, done>>

Fast == {"BLAKE2B", "SHA512"}

(* all entries except TIMESTAMP, per logical Manifest *)
Semantic(s) ==
    UNION { { <<MfAt(s, mp).lp, e.tag, e.p, e.size, e.hx>> : e \in { x \in Ents(MfAt(s, mp)) : x.tag # "TIMESTAMP" } }
            : mp \in { q \in MfPaths(s) : MfAt(s, q).reg } }

Clauses(r) ==
    IF r.end # "ok" THEN {"C20.ScriptFailed"} ELSE
    (IF ~MatchesStrict(r.s1, <<>>) THEN {"C20.OutputDoesNotVerify"} ELSE {})
    \cup (IF r.verify1 # "ok" THEN {"C20.ReferenceVerifierRejects"} ELSE {})
    \cup (LET acc == Accepted(r.s1, <<>>) IN
          (IF Uncovered(r.s1, <<>>, acc) # {} THEN {"C20.Uncovered"} ELSE {})
          \cup (IF MultiCovered(r.s1, <<>>, acc) # {} THEN {"C20.MultiCovered"} ELSE {})
          \cup (IF WrongEntries(r.s1, <<>>, acc, Fast) # {} THEN {"C20.WrongSizeOrDigest"} ELSE {})
          \cup (IF DanglingEntries(r.s1, <<>>, acc) # {} THEN {"C20.DanglingEntry"} ELSE {}))
    \cup (IF r.upd_end # "ok" THEN {"C20.UpdateFailsOnOutput"}
          ELSE IF Semantic(r.s1) # Semantic(r.s1u) THEN {"C20.UpdateChangesUntouchedTree"} ELSE {})
    \cup (IF r.upd2_end # "ok" THEN {"C20.UpdateAfterEditsFails"}
          ELSE (IF ~MatchesStrict(r.s2, <<>>) THEN {"C20.NotVerifyingAfterEdits"} ELSE {})
               \cup (IF r.verify2 # "ok" THEN {"C20.ReferenceVerifierRejectsAfterEdits"} ELSE {}))

Init == i \in 1..Len(Trace) /\ done = FALSE
Next == /\ ~done /\ done' = TRUE /\ i' = i
        /\ LET r == Trace[i] IN
             /\ \A c \in Clauses(r) : PrintT(<<"V", r.id, c>>)
             /\ PrintT(<<"K", r.id>>)
Spec == Init /\ [][Next]_vars
=============================================================================
