SPECIFICATION Spec
CONSTANTS
  SwallowWalkErrors = FALSE
  EloopMeansAbsent = TRUE
INVARIANT NeverSuccess
INVARIANT NeverAbsent
