SPECIFICATION Spec
CONSTANTS
  N = 4
  TopIdentityLost = TRUE
INVARIANT Bounded
INVARIANT Correct
