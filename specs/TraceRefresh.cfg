SPECIFICATION TraceSpec
CONSTANTS
  Own = {"A", "B"}
  Foreign = {"M"}
  MailChoices = {}
  Ring0Choices = {}
  ServePool = {}
  KsChoices = {}
  DeleteUnexpected = TRUE
  RequireAll = TRUE
  TrustOnRefresh = FALSE
  SecondLineDeletes = TRUE
  Export = FALSE
