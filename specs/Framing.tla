------------------------------- MODULE Framing -------------------------------
(***************************************************************************)
(* Layer A for C04: the line-by-line state machine of ManifestFile.load    *)
(* (manifest.py), over line classes, checked against FramingRef for ALL    *)
(* line sequences up to MaxLen.  PreambleArmorCheck = FALSE reproduces the *)
(* historical behaviour (armor lines inside the armor-header block were    *)
(* skipped like any header).                                               *)
(***************************************************************************)
EXTENDS FramingRef, TLC

CONSTANTS MaxLen, PreambleArmorCheck,
          NulHeaderCheck     \* FALSE = historical: a NUL-only line among the armor headers skipped like a header (F54)

VARIABLES in, pos, st, ents, gpgFrom, gpgTo, out
vars == <<in, pos, st, ents, gpgFrom, gpgTo, out>>

Inputs == UNION { [1..n -> Classes] : n \in 0..MaxLen }

Init == /\ \E n \in 0..MaxLen : in \in [1..n -> Classes]
        /\ pos = 1 /\ st = "DATA" /\ ents = {} /\ gpgFrom = 0 /\ gpgTo = 0 /\ out = "run"

Fail(kind) == /\ out' = kind /\ UNCHANGED <<in, pos, st, ents>>

(* the part of the loop body shared by all states: armor check, blank skip, *)
(* unsigned-data check, entry parsing.  c is the class after unescaping      *)
Common(c, state) ==
    IF c \in ArmorLike THEN Fail("syntax")
    ELSE IF state \in {"PRE", "SIG"} THEN
         /\ pos' = pos + 1 /\ st' = state /\ UNCHANGED <<in, ents, out>>
    ELSE IF c = "BL" THEN
         /\ pos' = pos + 1 /\ st' = state /\ UNCHANGED <<in, ents, out>>
    ELSE IF state = "POST" THEN Fail("unsigned")
    ELSE IF c = "EV" THEN
         /\ ents' = ents \cup {pos} /\ pos' = pos + 1 /\ st' = state /\ UNCHANGED <<in, out>>
    ELSE Fail("syntax")            \* HT, JK, DE (tag "-"), DA outside signed data

Step ==
    /\ out = "run" /\ pos <= Len(in)
    /\ LET c == in[pos] IN
       CASE st = "DATA" ->
              IF c = "BS"
              THEN IF ents # {} THEN Fail("unsigned") /\ UNCHANGED <<gpgFrom, gpgTo>>
                   ELSE /\ st' = "PRE" /\ gpgFrom' = pos /\ gpgTo' = pos /\ pos' = pos + 1
                        /\ UNCHANGED <<in, ents, out>>
              ELSE Common(c, "DATA") /\ UNCHANGED <<gpgFrom, gpgTo>>
         [] st = "PRE" ->
              IF c # "BL"
              THEN IF (PreambleArmorCheck /\ c \in ArmorLike) \/ (NulHeaderCheck /\ c = "NL")
                   THEN Fail("syntax") /\ UNCHANGED <<gpgFrom, gpgTo>>
                   ELSE /\ gpgTo' = pos /\ pos' = pos + 1 /\ UNCHANGED <<in, st, ents, gpgFrom, out>>
              ELSE /\ gpgTo' = pos /\ st' = "SIGNED" /\ pos' = pos + 1
                   /\ UNCHANGED <<in, ents, gpgFrom, out>>
         [] st = "SIGNED" ->
              IF c = "BG"
              THEN /\ gpgTo' = pos /\ st' = "SIG" /\ pos' = pos + 1 /\ UNCHANGED <<in, ents, gpgFrom, out>>
              ELSE LET u == IF c = "DE" THEN "EV" ELSE IF c = "DA" THEN "AR"
                            ELSE IF c = "DB" THEN "BL" ELSE c IN
                   /\ Common(u, "SIGNED") /\ gpgTo' = pos /\ UNCHANGED gpgFrom
         [] st = "SIG" ->
              IF c = "EN"
              THEN /\ gpgTo' = pos /\ st' = "POST" /\ pos' = pos + 1 /\ UNCHANGED <<in, ents, gpgFrom, out>>
              ELSE /\ Common(c, "SIG") /\ gpgTo' = pos /\ UNCHANGED gpgFrom
         [] st = "POST" -> Common(c, "POST") /\ UNCHANGED <<gpgFrom, gpgTo>>

Finish ==
    /\ out = "run" /\ pos = Len(in) + 1
    /\ out' = CASE st = "DATA" -> "plain"
                [] st = "POST" -> "signed"
                [] OTHER -> "syntax"
    /\ UNCHANGED <<in, pos, st, ents, gpgFrom, gpgTo>>

Next == Step \/ Finish
Spec == Init /\ [][Next]_vars

Result == Out(out, IF out \in {"plain", "signed"} THEN ents ELSE {},
              IF out = "signed" THEN <<gpgFrom, gpgTo>> ELSE <<0, 0>>)

(* C04 at design level: the loader's outcome is one the reference accepts  *)
Conforms == out # "run" => Result \in RefOutcomes(in)
(* and nothing outside the signed body ever becomes an entry                *)
BodyOnly == out = "signed" => NothingOutsideBody(in, Result)
(* while scanning signed text, entries only come from body positions         *)
NoSigEntries == \A i \in ents : in[i] \in {"EV", "DE"}
=============================================================================
