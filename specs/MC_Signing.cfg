SPECIFICATION Spec
CONSTANTS
  Subs = {"s1", "s2"}
  CheckLineLength = TRUE
  RenameFirst = TRUE
INVARIANT SignedIffWanted
INVARIANT SubsNeverSigned
INVARIANT SignedOverEntries
INVARIANT FailureReported
INVARIANT NoSpuriousFailure
