SPECIFICATION Spec
