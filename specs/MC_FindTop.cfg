SPECIFICATION Spec
CONSTANTS
  N = 3
  Export = FALSE
INVARIANT Correct
INVARIANT NeverOtherDevice
INVARIANT NeverCompressedUnasked
