SPECIFICATION Spec
