------------------------------ MODULE HashFile ------------------------------
(***************************************************************************)
(* C17: hash_file's read loop under arbitrary short reads.                 *)
(* Content is the sequence 1..Len; BUF and SLURP are the (scaled) buffer   *)
(* and slurp thresholds; hint is the caller's size tip (0 = none).  The    *)
(* environment chooses how many bytes each bounded read returns.           *)
(* read() without a size returns everything up to EOF (io semantics);      *)
(* read1(n) / read(n) may return fewer than n bytes, 0 only at EOF.        *)
(* SlurpCapped = TRUE is the mistake "read at most SLURP bytes, once".     *)
(***************************************************************************)
EXTENDS Naturals, Sequences, FiniteSets, TLC

CONSTANTS MaxLen, BUF, SLURP, SlurpCapped

VARIABLES len, hint, pos, fed, mode, done
vars == <<len, hint, pos, fed, mode, done>>

Init == /\ len \in 0..MaxLen /\ hint \in 0..(MaxLen + 2)
        /\ pos = 0 /\ fed = <<>> /\ done = FALSE
        /\ mode = IF hint # 0 /\ hint < SLURP THEN "slurp" ELSE "loop"

Range(a, b) == [k \in 1..(b - a) |-> a + k]       \* bytes a+1..b

Slurp ==
    /\ mode = "slurp" /\ ~done
    /\ IF SlurpCapped
       THEN \E n \in 0..SLURP :          \* one bounded read: may be short, 0 only at EOF
               /\ (n = 0) = (pos = len) /\ n <= len - pos
               /\ fed' = fed \o Range(pos, pos + n) /\ pos' = pos + n
       ELSE /\ fed' = fed \o Range(pos, len) /\ pos' = len
    /\ done' = TRUE
    /\ UNCHANGED <<len, hint, mode>>

Loop ==
    /\ mode = "loop" /\ ~done
    /\ \E n \in 0..BUF :
          /\ (n = 0) = (pos = len) /\ n <= len - pos
          /\ IF n = 0 THEN done' = TRUE /\ UNCHANGED <<fed, pos>>
             ELSE fed' = fed \o Range(pos, pos + n) /\ pos' = pos + n /\ UNCHANGED done
    /\ UNCHANGED <<len, hint, mode>>

Next == Slurp \/ Loop
Spec == Init /\ [][Next]_vars

Prefix   == fed = Range(0, Len(fed))                          \* every byte once, in order
Whole    == done => fed = Range(0, len)                       \* nothing dropped
SizeOK   == done => Len(fed) = len

(* growth: every read makes progress, so the loop ends whatever the sizes of the short reads *)
FairSpec   == Spec /\ WF_vars(Next)
Terminates == <>done
Progress   == [][pos' > pos \/ done']_vars
=============================================================================
