SPECIFICATION Spec
CONSTANTS
  MaxLen = 5
  FullKeyword = "TRUST_FULLY"
INVARIANT Sound
INVARIANT Complete
INVARIANT Kinds
INVARIANT Monotone
