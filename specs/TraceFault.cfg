SPECIFICATION Spec
