SPECIFICATION Spec
