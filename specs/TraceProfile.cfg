SPECIFICATION Spec
