---------------------------- MODULE TraceSigning ----------------------------
(***************************************************************************)
(* Trace validation for C14: one record per real update+save.              *)
(*  [signopt "unset"|"on"|"off", was_signed, key_usable, signable,         *)
(*   explicit_key,                                                         *)
(*   end "ok"|"fail"|..., exc,                                             *)
(*   top: [classes: Seq(line class), verified, signer_ok, entries_match],  *)
(*   subs: Seq([classes])]                                                 *)
(* The written files are classified line by line and judged with the same  *)
(* FramingRef!RefOutcomes that judges the parser (C04).                    *)
(***************************************************************************)
EXTENDS FramingRef, TLC, Json, IOUtils

Trace == ndJsonDeserialize(IOEnv.TRACE_FILE)
VARIABLES i, done
vars == <<i, done>>

KindOf(classes) ==
    LET ref == RefOutcomes(classes) IN
    IF \E x \in ref : x.kind = "signed" THEN "signed"
    ELSE IF \E x \in ref : x.kind = "plain" THEN "plain" ELSE "malformed"

Clauses(r) ==
    LET want == r.signopt = "on" \/ (r.signopt = "unset" /\ r.was_signed)
        tk == KindOf(r.top.classes)
    IN (IF \E k \in DOMAIN r.subs : KindOf(r.subs[k].classes) # "plain" THEN {"C14.SubManifestNotPlain"} ELSE {})
       \cup (IF r.end = "ok" /\ want /\ tk # "signed" THEN {"C14.TopNotSigned"} ELSE {})
       \cup (IF r.end = "ok" /\ ~want /\ tk # "plain" THEN {"C14.TopNotPlain"} ELSE {})
       \cup (IF r.end = "ok" /\ want /\ tk = "signed" /\ ~r.top.verified THEN {"C14.SignatureDoesNotVerify"} ELSE {})
       \cup (IF r.end = "ok" /\ want /\ tk = "signed" /\ r.top.verified /\ ~r.top.signer_ok THEN {"C14.WrongSigner"} ELSE {})
       \cup (IF r.end = "ok" /\ want /\ tk = "signed" /\ r.top.verified /\ ~r.top.entries_match
             THEN {"C14.SignedTextNotTheEntries"} ELSE {})
       \cup (IF want /\ ~r.key_usable /\ r.end = "ok" THEN {"C14.SilentlyUnsignedOrWrongKey"} ELSE {})
       \* signable = FALSE: the text holds a line longer than gpg signs intact (it would be cut silently)
       \cup (IF want /\ r.key_usable /\ ~r.signable /\ r.end = "ok" THEN {"C14.UnsignableTextSigned"} ELSE {})
       \cup (IF want /\ (~r.key_usable \/ ~r.signable) /\ r.end # "ok" /\ r.exc # "OpenPGPSigningFailure"
             THEN {"C14.WrongFailure"} ELSE {})
       \cup (IF (~want \/ (r.key_usable /\ r.signable)) /\ r.end # "ok" THEN {"C14.SpuriousFailure"} ELSE {})

Init == i \in 1..Len(Trace) /\ done = FALSE
Next == /\ ~done /\ done' = TRUE /\ i' = i
        /\ LET r == Trace[i] IN
             /\ \A c \in Clauses(r) : PrintT(<<"V", r.id, c>>)
             /\ PrintT(<<"K", r.id>>)
Spec == Init /\ [][Next]_vars
=============================================================================
