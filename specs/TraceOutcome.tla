---------------------------- MODULE TraceOutcome ----------------------------
(***************************************************************************)
(* C18 (Outcome): how an operation may end.                                *)
(*   ok            completed                                               *)
(*   fail          one of the library's own exception types (CLI: logged   *)
(*                 message and exit status 1)                              *)
(*   oserror(e)    a genuine operating-system error, for an object that -  *)
(*                 according to the projected tree - really cannot be      *)
(*                 accessed the way the operation needs                    *)
(* Anything else (AttributeError, KeyError, IndexError, TypeError,         *)
(* AssertionError, ValueError, OverflowError, NotImplementedError, ...)    *)
(* is an internal error and a violation.                                   *)
(* Record: [s (scenario), cmd, sub, profile, end, exc, status, cli]        *)
(***************************************************************************)
EXTENDS Glep74, Json, IOUtils
Trace == ndJsonDeserialize(IOEnv.TRACE_FILE)
VARIABLES i, done
vars == <<i, done>>

AllMfEntries(s) == UNION { { <<Full(m, e), e>> : e \in Ents(m) } : m \in MfSet(s) }
PrefixesOf(p) == { SubSeq(p, 1, k) : k \in 1..(Len(p) - 1) }

(* (a Manifest the harness's own reader could not parse - a lenient zone of C09, e.g. size +0 - *)
(* may name paths the projection does not show: the three path errnos are then not judged)     *)
(* something named by a Manifest (or the sub path given on the command line) lies beneath a   *)
(* non-directory, names a directory where a file is needed, or does not exist                 *)
Explains(s, sub, errno) ==
    LET ents == { x \in AllMfEntries(s) : x[2].tag \notin {"DIST", "TIMESTAMP"} }
        paths == { x[1] : x \in ents } \cup {sub} \cup MfPaths(s)
    IN IF (OddPaths(s) \/ \E m \in MfSet(s) : ~m.ok) /\ errno \in {"ENOTDIR", "ENOENT", "EISDIR"} THEN TRUE ELSE
       CASE errno = "ENOTDIR" -> \E p \in paths : \E q \in PrefixesOf(p) \cup {p} : Kind(s, q) \in {"file", "other", "dangling"}
         [] errno = "ENOENT"  -> \E p \in paths : Kind(s, p) \in {"absent", "dangling"} \/ \E q \in PrefixesOf(p) : Kind(s, q) \in {"absent", "dangling"}
         [] errno = "EISDIR"  -> \E p \in paths : Kind(s, p) = "dir" /\ p # <<>>
         [] errno = "ELOOP"   -> \E n \in NodeSet(s) : n.k = "dangling" \/ n.loop
         [] errno = "ENXIO"   -> \E n \in NodeSet(s) : n.k = "other"
         [] OTHER -> FALSE

Clauses(r) ==
    (IF r.end = "internal" THEN {"C18.InternalError"} ELSE {})
    \cup (IF r.end = "oserror" /\ ~Explains(r.s, r.sub, r.exc) THEN {"C18.UnexplainedOSError"} ELSE {})
    \cup (IF r.cli /\ r.end = "fail" /\ r.status # 1 THEN {"C18.WrongExitStatus"} ELSE {})
    \cup (IF r.cli /\ r.end = "ok" /\ r.status \notin {0, 1} THEN {"C18.WrongExitStatus"} ELSE {})

Init == i \in 1..Len(Trace) /\ done = FALSE
Next == /\ ~done /\ done' = TRUE /\ i' = i
        /\ LET r == Trace[i] IN
             /\ \A c \in Clauses(r) : PrintT(<<"V", r.id, c>>)
             /\ PrintT(<<"K", r.id>>)
Spec == Init /\ [][Next]_vars
=============================================================================
