------------------------------ MODULE GpgStatus ------------------------------
(***************************************************************************)
(* C05: when is an OpenPGP signature accepted.                             *)
(*                                                                         *)
(* The backend (gpg --status-fd) reports a sequence of status keywords and *)
(* an exit status.  Layer P: AcceptSig.  Layer A: the scanner of           *)
(* SystemGPGEnvironment.verify_file, line by line.  TLC checks the scanner *)
(* against AcceptSig for ALL sequences up to MaxLen over gpg's vocabulary  *)
(* and every exit status, and monotonicity in the trust level.             *)
(* FullKeyword = "TRUST_FULL" reproduces the historical defect (F3): gpg   *)
(* says TRUST_FULLY.                                                       *)
(***************************************************************************)
EXTENDS GpgRef, TLC

CONSTANTS MaxLen, FullKeyword

(* ---- Layer A: verify_file ---- *)
TrustedKeywords == {"TRUST_MARGINAL", FullKeyword, "TRUST_ULTIMATE"}

RECURSIVE Scan(_, _, _, _, _)
Scan(sq, k, good, valid, trusted) ==
    IF k > Len(sq) THEN
        IF ~good \/ ~valid THEN "unknown" ELSE IF ~trusted THEN "untrusted" ELSE "accept"
    ELSE IF sq[k] = "GOODSIG" THEN Scan(sq, k + 1, TRUE, valid, trusted)
    ELSE IF sq[k] = "EXPKEYSIG" THEN "expired"
    ELSE IF sq[k] = "REVKEYSIG" THEN "revoked"
    ELSE IF sq[k] = "VALIDSIG" THEN Scan(sq, k + 1, good, TRUE, trusted)
    ELSE IF sq[k] \in TrustSet THEN Scan(sq, k + 1, good, valid, trusted \/ sq[k] \in TrustedKeywords)
    ELSE Scan(sq, k + 1, good, valid, trusted)

Verify(sq, exit) == IF exit # 0 THEN "verification" ELSE Scan(sq, 1, FALSE, FALSE, FALSE)

VARIABLES sq, exit, out
vars == <<sq, exit, out>>
Init == /\ \E n \in 0..MaxLen : sq \in [1..n -> Vocabulary]
        /\ exit \in ExitCodes /\ out = "none"
Step == out = "none" /\ out' = Verify(sq, exit) /\ UNCHANGED <<sq, exit>>
Spec == Init /\ [][Step]_vars

Sound    == out = "accept" => AcceptSig(sq, exit)
Complete == (out # "none" /\ AcceptSig(sq, exit)) => out = "accept"
Kinds    == (out \notin {"none", "accept"}) => KindAllowed(sq, exit, out)
Monotone == (out = "accept") => Verify(Raise(sq), exit) = "accept"
=============================================================================
