SPECIFICATION Spec
INVARIANT PlacementAgrees
INVARIANT TypingAgrees
