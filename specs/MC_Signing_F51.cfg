SPECIFICATION Spec
CONSTANTS
  Subs = {"s1", "s2"}
  CheckLineLength = FALSE
  RenameFirst = TRUE
INVARIANT SignedIffWanted
INVARIANT SubsNeverSigned
INVARIANT SignedOverEntries
INVARIANT FailureReported
INVARIANT NoSpuriousFailure
