SPECIFICATION Spec
CONSTANTS
  MaxFields = 2
  EscAbsCheck = FALSE
  DupCheck = TRUE
  RangeCheck = TRUE
INVARIANT Total
INVARIANT Rejects
INVARIANT Accepts
INVARIANT Disjoint
