--------------------------- MODULE TraceEntryLine ---------------------------
(***************************************************************************)
(* Trace validation for C09: one record per text loaded by the real parser *)
(*   [id, lines: Seq(<<tag, field...>>) (non-blank lines, fields described  *)
(*    by the harness classifier as [path, slash, size, ts, w]), lenient,    *)
(*    obs: [kind: entry|syntax|unsigned|internal, n: number of entries]]    *)
(***************************************************************************)
EXTENDS Naturals, Sequences, FiniteSets, TLC, Json, IOUtils

FileTags  == {"DATA", "MANIFEST", "MISC", "EBUILD", "AUX", "DIST"}
KnownTags == FileTags \cup {"IGNORE", "TIMESTAMP"}
Tag(l)  == l[1]
NF(l)   == Len(l) - 1
Fld(l, k) == l[k + 1]

(* identical to EntryLine!MustReject / MustAccept (fields here are records  *)
(* without the model-only components raw/why)                               *)
(* a checksum name (fields 3, 5, ...) listed twice; w = index of the first field of the line holding *)
(* the same word                                                                                     *)
DupName(l) == \E a, b \in 3..NF(l) : a < b /\ (a - 3) % 2 = 0 /\ (b - 3) % 2 = 0 /\ Fld(l, a).w = Fld(l, b).w
MustReject(l) ==
    \/ Tag(l) \in FileTags /\ (NF(l) - 2) % 2 = 0 /\ DupName(l)
    \/ Tag(l) \notin KnownTags
    \/ Tag(l) = "TIMESTAMP" /\ (NF(l) # 1 \/ Fld(l, 1).ts = "bad")
    \/ Tag(l) = "IGNORE"    /\ (NF(l) # 1 \/ Fld(l, 1).path = "bad")
    \/ Tag(l) \in FileTags /\
         \/ NF(l) < 2
         \/ Fld(l, 1).path = "bad"
         \/ Tag(l) = "DIST" /\ Fld(l, 1).slash
         \/ Fld(l, 2).size = "bad"
         \/ (NF(l) - 2) % 2 = 1

MustAccept(l) ==
    /\ ~(Tag(l) \in FileTags /\ DupName(l))
    /\ Tag(l) \in KnownTags
    /\ Tag(l) = "TIMESTAMP" => (NF(l) = 1 /\ Fld(l, 1).ts = "ok")
    /\ Tag(l) = "IGNORE"    => (NF(l) = 1 /\ Fld(l, 1).path = "ok")
    /\ Tag(l) \in FileTags  =>
         /\ NF(l) >= 2 /\ Fld(l, 1).path = "ok" /\ ~(Tag(l) = "DIST" /\ Fld(l, 1).slash)
         /\ Fld(l, 2).size = "ok" /\ (NF(l) - 2) % 2 = 0

Trace == ndJsonDeserialize(IOEnv.TRACE_FILE)
VARIABLES i, done
vars == <<i, done>>

Clauses(r) ==
    LET ls == r.lines
        anyReject == \E k \in DOMAIN ls : MustReject(ls[k])
        allAccept == \A k \in DOMAIN ls : MustAccept(ls[k])
    IN IF r.lenient THEN (IF r.obs.kind = "internal" THEN {"C09.Crash"} ELSE {})
       ELSE (IF r.obs.kind = "internal" THEN {"C09.Crash"} ELSE {})
       \cup (IF r.obs.kind = "unsigned" THEN {"C09.UnsignedWithoutArmor"} ELSE {})
       \cup (IF r.obs.kind = "entry" /\ anyReject THEN {"C09.AcceptedMalformed"} ELSE {})
       \cup (IF r.obs.kind = "syntax" /\ allAccept THEN {"C09.RejectedValid"} ELSE {})
       \cup (IF r.obs.kind = "entry" /\ r.obs.n # Len(ls) THEN {"C09.LineSkipped"} ELSE {})

Init == i \in 1..Len(Trace) /\ done = FALSE
Next == /\ ~done /\ done' = TRUE /\ i' = i
        /\ LET r == Trace[i] IN
             /\ \A c \in Clauses(r) : PrintT(<<"V", r.id, c>>)
             /\ (r.lenient => PrintT(<<"L", r.id, "ArmorOrOddLine">>))
             /\ PrintT(<<"K", r.id>>)
Spec == Init /\ [][Next]_vars
=============================================================================
