SPECIFICATION Spec
