------------------------------ MODULE TraceApi ------------------------------
(***************************************************************************)
(* Growth of the specification beyond the listed properties: the remaining *)
(* public operations, judged on recorded executions.                       *)
(*                                                                         *)
(*  kind "update_path": loader.update_entry_for_path(p) + save_manifests   *)
(*     [s0, s1, path, hashes, end, exc, before_save, nonmf_changed]        *)
(*     - everything the property C10 says about updates applies with "the  *)
(*       directory being updated" = the path (clauses named C10.x)         *)
(*     - X01: afterwards the path is covered by exactly one exact entry if  *)
(*       the file exists, by none if it does not                           *)
(*  kind "timestamp": find_timestamp / set_timestamp                        *)
(*     [s0, s1, found (TIMESTAMP value or ""), set (value or ""), end]     *)
(*     - X02: find returns a TIMESTAMP of a Manifest in the top directory   *)
(*       (none iff there is none); set changes that one or adds one to the  *)
(*       top-level Manifest, and nothing else                              *)
(*  kind "hashcmd": `gemato hash -H ... file`                               *)
(*     [line_ok, status]  X03: the printed entry is the true one           *)
(*  kind "multiverify": `gemato verify p1 p2 ...`                           *)
(*     [single: Seq(status of each path alone), status]                    *)
(*     C07.ExitStatusMultiPath: status 0 iff every single status is 0      *)
(*     C07.MultiPathKeepGoing: with -k the reports are the union of the     *)
(*     single runs' reports                                                *)
(***************************************************************************)
EXTENDS UpdateRef, Json, IOUtils
Trace == ndJsonDeserialize(IOEnv.TRACE_FILE)
VARIABLES i, done
vars == <<i, done>>

TopDirTs(s) == UNION { { e.ts : e \in { x \in Ents(m) : x.tag = "TIMESTAMP" } }
                       : m \in { y \in MfSet(s) : y.reg /\ Len(y.p) = 1 } }
(* MANIFEST entries excepted: the harness forces the save, which refreshes them *)
AllButTs(s) == UNION { { <<m.lp, e.tag, e.p, e.size, e.hx>> : e \in { x \in Ents(m) : x.tag \notin {"TIMESTAMP", "MANIFEST"} } }
                       : m \in { y \in MfSet(s) : y.reg } }

Clauses(r) ==
    IF r.kind = "update_path" THEN
        LET s0 == r.s0  s1 == r.s1  p == r.path  hs == SeqSet(r.hashes)
            acc == Accepted(s1, p)
            cov == CoveringIdx(s1, { m.p : m \in { y \in MfSet(s1) : y.reg } }, p)
        IN (IF r.before_save # <<>> THEN {"C10.WroteBeforeSave"} ELSE {})
           \cup (IF r.nonmf_changed # <<>> THEN {"C10.TouchedNonManifest"} ELSE {})
           \cup (IF r.end = "ok" /\ ~OddPaths(s0) THEN
                   (IF DistSet(s0) # DistSet(s1) THEN {"C10.DistChanged"} ELSE {})
                   \cup (IF IgnoreSet(s0) # IgnoreSet(s1) THEN {"C10.IgnoreChanged"} ELSE {})
                   \cup (IF TsSet(s0) # TsSet(s1) THEN {"C10.TimestampChanged"} ELSE {})
                   \cup (IF OutsideSet(s0, p, FALSE) # OutsideSet(s1, p, FALSE) THEN {"C10.OutsideChanged"} ELSE {})
                   \cup (IF Kind(s1, p) = "file" /\ Cardinality(cov) # 1 THEN {"X01.NotExactlyOneEntry"} ELSE {})
                   \cup (IF Kind(s1, p) = "file" /\ \E x \in cov : ~EntryExact(s1, p, EntOf(s1, x), hs)
                         THEN {"X01.EntryNotExact"} ELSE {})
                   \cup (IF Kind(s1, p) = "absent" /\ cov # {} THEN {"X01.EntryForVanishedFile"} ELSE {})
                 ELSE {})
    ELSE IF r.kind = "timestamp" THEN
        (IF r.end # "ok" THEN {"X02.Failed"} ELSE
         (IF (r.found = "") # (TopDirTs(r.s0) = {}) THEN {"X02.FindWrong"} ELSE {})
         \cup (IF r.found # "" /\ r.found \notin TopDirTs(r.s0) THEN {"X02.FindWrong"} ELSE {})
         \cup (IF r.set # "" /\ r.set \notin TopDirTs(r.s1) THEN {"X02.SetLost"} ELSE {})
         \cup (IF r.set # "" /\ Cardinality(TopDirTs(r.s1)) > Cardinality(TopDirTs(r.s0) \cup {r.set}) THEN {"X02.SetDuplicated"} ELSE {})
         \cup (IF AllButTs(r.s0) # AllButTs(r.s1) THEN {"X02.OtherEntriesChanged"} ELSE {}))
    ELSE IF r.kind = "hashcmd" THEN
        (IF ~r.line_ok \/ r.status # 0 THEN {"X03.HashCommandWrong"} ELSE {})
    ELSE IF r.kind = "multiverify" THEN
        (IF (r.status = 0) # (\A k \in DOMAIN r.single : r.single[k] = 0) THEN {"C07.ExitStatusMultiPath"} ELSE {})
        \* keep-going over several paths reports what the runs of the single paths report together
        \* (sorted sequences = bags); not judged when a run was cut short by a raised exception
        \cup (IF "kmulti" \in DOMAIN r /\ ~r.kraised /\ r.kmulti # r.ksingle THEN {"C07.MultiPathKeepGoing"} ELSE {})
    ELSE {"X00.UnknownRecord"}

Init == i \in 1..Len(Trace) /\ done = FALSE
Next == /\ ~done /\ done' = TRUE /\ i' = i
        /\ LET r == Trace[i] IN
             /\ \A c \in Clauses(r) : PrintT(<<"V", r.id, c>>)
             /\ PrintT(<<"K", r.id>>)
Spec == Init /\ [][Next]_vars
=============================================================================
