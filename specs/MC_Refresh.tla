----------------------------- MODULE MC_Refresh -----------------------------
EXTENDS Refresh

B(k, u) == [k |-> k, u |-> u]
Fail == [kind |-> "fail", blobs |-> {}]
Empty == [kind |-> "empty", blobs |-> {}]
Garbage == [kind |-> "garbage", blobs |-> {}]
KeysAns(S) == [kind |-> "keys", blobs |-> S]

MCMail == { [k \in {"A", "B", "M"} |-> IF k = "B" THEN {"b"} ELSE {"a"}],                 \* M claims A's address
            [k \in {"A", "B", "M"} |-> IF k = "B" THEN {} ELSE {"a"}],                    \* B has no mail address
            [k \in {"A", "B", "M"} |-> IF k = "B" THEN {"b"} ELSE IF k = "A" THEN {"a", "a2"} ELSE {"a"}] }
MCRing0 == { r \in [{"A", "B", "M"} -> {"absent", "valid", "expired", "revoked"}] :
               r["M"] = "absent" /\ r["B"] \in {"absent", "valid"} }
PoolA == { B("A", "same"), B("A", "rev"), B("A", "ext"), B("M", "same") }
MCServe == [a \in {"a", "a2", "b"} |->
              IF a = "a" THEN {Fail, Empty, Garbage} \cup { KeysAns(S) : S \in SUBSET PoolA \ {{}} }
              ELSE IF a = "a2" THEN {Fail, KeysAns({B("A", "same")}), KeysAns({B("A", "rev")})}
              ELSE {Fail, Empty, KeysAns({B("B", "same")}), KeysAns({B("B", "rev")})}]
NoneAns == [kind |-> "none", blobs |-> {}]
MCKs == { [up |-> FALSE, m |-> [k \in {"A", "B", "M"} |-> NoneAns]],
          [up |-> TRUE, m |-> [k \in {"A", "B", "M"} |-> KeysAns({B(k, "same")})]],
          [up |-> TRUE, m |-> [k \in {"A", "B", "M"} |-> KeysAns({B(k, IF k = "A" THEN "rev" ELSE "same")})]],
          [up |-> TRUE, m |-> [k \in {"A", "B", "M"} |-> KeysAns({B(k, IF k = "A" THEN "ext" ELSE "same")})]],
          [up |-> TRUE, m |-> [k \in {"A", "B", "M"} |-> IF k = "A" THEN KeysAns({B("A", "same"), B("M", "same")})
                                                           ELSE KeysAns({B(k, "same")})]],
          [up |-> TRUE, m |-> [k \in {"A", "B", "M"} |-> IF k = "B" THEN NoneAns ELSE KeysAns({B(k, "same")})]],
          [up |-> TRUE, m |-> [k \in {"A", "B", "M"} |-> IF k = "A" THEN NoneAns ELSE KeysAns({B(k, "same"), B("A", "rev")})]],
          [up |-> TRUE, m |-> [k \in {"A", "B", "M"} |-> NoneAns]] }
(* small instance for the defect configurations (TLC rebuilds a counterexample from the initial states: *)
(* with 50,000 of them that takes a minute)                                                            *)
SmallMail == { [k \in {"A", "B", "M"} |-> IF k = "B" THEN {"b"} ELSE IF k = "A" THEN {"a", "a2"} ELSE {"a"}] }
SmallRing0 == { [k \in {"A", "B", "M"} |-> IF k = "A" THEN "valid" ELSE "absent"],
                [k \in {"A", "B", "M"} |-> IF k = "M" THEN "absent" ELSE "valid"] }
SmallServe == [a \in {"a", "a2", "b"} |->
                 IF a = "a" THEN {Fail, KeysAns({B("A", "same")}), KeysAns({B("A", "same"), B("M", "same")}),
                                  KeysAns({B("A", "same"), B("A", "rev")})}
                 ELSE IF a = "a2" THEN {Fail, KeysAns({B("A", "same")})}
                 ELSE {Fail, Empty, KeysAns({B("B", "same")})}]
SmallKs == { [up |-> FALSE, m |-> [k \in {"A", "B", "M"} |-> NoneAns]],
             [up |-> TRUE, m |-> [k \in {"A", "B", "M"} |-> KeysAns({B(k, "same")})]] }
=============================================================================
