SPECIFICATION Spec
CONSTANTS
  MaxLen = 4
  FullKeyword = "TRUST_FULLY"
INVARIANT Sound
INVARIANT Complete
INVARIANT Kinds
INVARIANT Monotone
