SPECIFICATION Spec
CONSTANTS
  MaxLen = 2
  EscapeSurrogates = TRUE
  ExportTable = TRUE
INVARIANT RoundTrip
INVARIANT NoSeparator
INVARIANT FixedPoint
INVARIANT Storable
