SPECIFICATION Spec
CONSTANTS
  MaxLen = 3
  FullKeyword = "TRUST_FULL"
INVARIANT Sound
INVARIANT Complete
INVARIANT Kinds
INVARIANT Monotone
