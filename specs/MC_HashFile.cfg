SPECIFICATION FairSpec
CONSTANTS
  MaxLen = 7
  BUF = 2
  SLURP = 4
  SlurpCapped = FALSE
INVARIANT Prefix
INVARIANT Whole
INVARIANT SizeOK
PROPERTY Terminates
PROPERTY Progress
