SPECIFICATION Spec
CONSTANTS
  MaxFields = 3
  EscAbsCheck = TRUE
  DupCheck = FALSE
  RangeCheck = TRUE
INVARIANT Total
INVARIANT Rejects
INVARIANT Accepts
INVARIANT Disjoint
