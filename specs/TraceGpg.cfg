SPECIFICATION Spec
