------------------------------ MODULE UpdateRef ------------------------------
(***************************************************************************)
(* Layer P for updates (C03, C10, C12, C13): what the Manifest files must  *)
(* look like after a completed update + save, and what an update may not   *)
(* touch.  Pure operators over scenarios (see Glep74).                     *)
(***************************************************************************)
EXTENDS Glep74

(* entries with their position: <<manifest path, index>> *)
EntIdx(s, acc) == UNION { { <<mp, k>> : k \in DOMAIN MfAt(s, mp).entries } : mp \in acc }
EntOf(s, x)  == MfAt(s, x[1]).entries[x[2]]
FullOf(s, x) == Full(MfAt(s, x[1]), EntOf(s, x))

FileTagSet == {"MANIFEST", "DATA", "EBUILD", "MISC", "AUX"}

(* files an update of sub is responsible for: found by the walk (hidden     *)
(* names and IGNOREd sub-trees excepted), regular, not the top-level file   *)
Responsible(s, sub, acc) ==
    LET FE == FileEnts(s, sub, acc)
        IG == { x \in FE : x[2].tag = "IGNORE" }
        V  == Visited(s, IG, sub)      \* only IGNORE prunes here: every other dir is walked
    IN { f \in Found(s, V) : f # s.top /\ Kind(s, f) = "file" /\ ~HasGroup(IG, f) }

CoveringIdx(s, acc, f) ==
    { x \in EntIdx(s, acc) : EntOf(s, x).tag \in FileTagSet /\ FullOf(s, x) = f }

HashNames(e) == { e.ck[k][1] : k \in DOMAIN e.ck }

EntryExact(s, f, e, hashes) ==
    /\ FileStrict(s, f, e)
    /\ HashNames(e) = hashes

(* ExactCover, clause by clause (each returns the set of offending paths)   *)
Uncovered(s, sub, acc)   == { f \in Responsible(s, sub, acc) : CoveringIdx(s, acc, f) = {} }
MultiCovered(s, sub, acc) == { f \in Responsible(s, sub, acc) : Cardinality(CoveringIdx(s, acc, f)) > 1 }
WrongEntries(s, sub, acc, hashes) ==
    { f \in Responsible(s, sub, acc) :
        \E x \in CoveringIdx(s, acc, f) : ~EntryExact(s, f, EntOf(s, x), hashes) }
DanglingEntries(s, sub, acc) ==
    { FullOf(s, x) : x \in { y \in EntIdx(s, acc) :
          /\ EntOf(s, y).tag \in FileTagSet
          /\ IsPfx(sub, FullOf(s, y))
          /\ Kind(s, FullOf(s, y)) = "absent" } }

ExactCover(s, sub, hashes) ==
    LET acc == Accepted(s, sub) IN
    /\ Uncovered(s, sub, acc) = {} /\ MultiCovered(s, sub, acc) = {}
    /\ WrongEntries(s, sub, acc, hashes) = {} /\ DanglingEntries(s, sub, acc) = {}
    /\ MatchesStrict(s, sub)

(* ---- preservation (C10) ------------------------------------------------ *)
(* logical name of a Manifest: path without the compression suffix (the     *)
(* harness supplies `lp` on every Manifest record)                          *)
AllMf(s) == MfPaths(s)
DistSet(s)   == UNION { { <<MfAt(s, mp).lp, e.p, e.size, e.hx>> : e \in { x \in Ents(MfAt(s, mp)) : x.tag = "DIST" } } : mp \in AllMf(s) }
IgnoreSet(s) == UNION { { Full(MfAt(s, mp), e) : e \in { x \in Ents(MfAt(s, mp)) : x.tag = "IGNORE" } } : mp \in AllMf(s) }
TsSet(s)     == UNION { { <<MfAt(s, mp).lp, e.ts>> : e \in { x \in Ents(MfAt(s, mp)) : x.tag = "TIMESTAMP" } } : mp \in AllMf(s) }
TagsOf(s, f) == UNION { { e.tag : e \in { x \in Ents(MfAt(s, mp)) : x.tag \in FileTagSet /\ Full(MfAt(s, mp), x) = f } } : mp \in AllMf(s) }
FilePaths(s) == UNION { { Full(MfAt(s, mp), e) : e \in { x \in Ents(MfAt(s, mp)) : x.tag \in FileTagSet } } : mp \in AllMf(s) }

(* entries for paths outside sub, per logical Manifest; MANIFEST entries on  *)
(* the chain above sub are exempt (all MANIFEST entries when a forced       *)
(* rewrite of every Manifest was requested)                                  *)
OutsideSetA(s, sub, aliases, force) ==
    UNION { { <<MfAt(s, mp).lp, Full(MfAt(s, mp), e), e.tag, e.size, e.hx>> :
                e \in { x \in Ents(MfAt(s, mp)) :
                          /\ x.tag \in FileTagSet
                          /\ ~IsPfx(sub, Full(MfAt(s, mp), x))
                          /\ ~\E a \in aliases : IsPfx(a, Full(MfAt(s, mp), x))
                          /\ ~(x.tag = "MANIFEST" /\ (force \/ IsPfx(Dir(Full(MfAt(s, mp), x)), sub))) } }
            : mp \in AllMf(s) }
OutsideSet(s, sub, force) == OutsideSetA(s, sub, {}, force)
=============================================================================
