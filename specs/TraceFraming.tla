---------------------------- MODULE TraceFraming ----------------------------
(***************************************************************************)
(* Trace validation for C04: each record is one real ManifestFile.load of  *)
(* a text whose lines the harness classified into FramingRef's classes.    *)
(*   [id, in: Seq(class), paths: Seq(STRING) (path of the entry on each    *)
(*    line, "" for non-entries), verify, lenient,                          *)
(*    obs:  [kind, epaths: Seq(STRING), gpg: <<from,to>>],                  *)
(*    auth: [checked, good, epaths]]   what gpg itself authenticated        *)
(* obs.kind: plain | signed | syntax | unsigned | sigfail | internal | other *)
(* With verify = FALSE a signed text loads like a plain one (not reported  *)
(* signed, nothing handed to gpg): only failure kind and entries compared. *)
(***************************************************************************)
EXTENDS FramingRef, Json, IOUtils, TLC

Trace == ndJsonDeserialize(IOEnv.TRACE_FILE)
VARIABLES i, done
vars == <<i, done>>

PathsOf(r, ents) ==     \* paths of the lines in ents, in line order
    LET idx == SelectSeq([k \in 1..Len(r.in) |-> k], LAMBDA k : k \in ents)
    IN [k \in 1..Len(idx) |-> r.paths[idx[k]]]

Clauses(r) ==
    LET ref  == RefOutcomes(r.in)
        o    == r.obs
        okRef == { x \in ref : x.kind \in {"plain", "signed"} }
    IN IF r.lenient THEN {}
       ELSE IF o.kind \in {"internal", "other"} THEN {"C04.InternalError"}
       ELSE IF o.kind \in {"syntax", "unsigned"} THEN
            (IF okRef # {} THEN {"C04.RejectedWellFormed"}
             ELSE IF ~\E x \in ref : x.kind = o.kind THEN {"C04.WrongFailure"} ELSE {})
       ELSE IF o.kind = "sigfail" THEN
            (IF ~\E x \in okRef : x.kind = "signed" THEN {"C04.WrongFailure"} ELSE {})
            \cup (IF r.auth.checked /\ r.auth.good /\ \E x \in okRef : x.kind = "signed"
                  THEN {"C04.RejectedAuthentic"} ELSE {})
       ELSE \* plain / signed reported
            IF okRef = {} THEN {"C04.AcceptedMalformed"}
            ELSE LET x == CHOOSE y \in okRef : TRUE IN
                 (IF PathsOf(r, x.ents) # o.epaths THEN {"C04.WrongEntries"} ELSE {})
                 \cup (IF r.verify /\ x.kind # o.kind THEN {"C04.WrongSignedStatus"} ELSE {})
                 \cup (IF r.verify /\ x.kind = "signed" /\ o.kind = "signed" /\ x.gpg # o.gpg
                       THEN {"C04.WrongSignedText"} ELSE {})
                 \cup (IF ~r.verify /\ o.kind = "signed" THEN {"C04.SignedWithoutVerification"} ELSE {})
                 \cup (IF o.kind = "signed" /\ r.auth.checked /\ ~r.auth.good
                       THEN {"C04.AcceptedButGpgRejects"} ELSE {})
                 \* (paths, and - where the harness supplies them - whole entries: tag, path, size, checksums)
                 \cup (IF o.kind = "signed" /\ r.auth.checked /\ r.auth.good
                          /\ (r.auth.epaths # o.epaths
                              \/ ("esig" \in DOMAIN o /\ "esig" \in DOMAIN r.auth /\ r.auth.esig # o.esig))
                       THEN {"C04.NotTheAuthenticatedText"} ELSE {})

Init == i \in 1..Len(Trace) /\ done = FALSE
Next == /\ ~done /\ done' = TRUE /\ i' = i
        /\ LET r == Trace[i] IN
             /\ \A c \in Clauses(r) : PrintT(<<"V", r.id, c>>)
             /\ (r.lenient => PrintT(<<"L", r.id, "EndSigNoNewline">>))
             /\ PrintT(<<"K", r.id>>)
Spec == Init /\ [][Next]_vars
=============================================================================
