SPECIFICATION Spec
CONSTANTS
  SwallowWalkErrors = FALSE
  EloopMeansAbsent = FALSE
INVARIANT NeverSuccess
INVARIANT NeverAbsent
