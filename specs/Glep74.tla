------------------------------- MODULE Glep74 -------------------------------
(***************************************************************************)
(* Layer P: what a GLEP 74 Manifest tree *means*.                          *)
(*                                                                         *)
(* A scenario s is a record                                                *)
(*   nodes : Seq([p, k, h, cid, size, mt, dev, ino, loop])  logical tree   *)
(*           (symlinks followed; p = sequence of path components;          *)
(*            k in "file" "dir" "other" "dangling"; h = hidden name)       *)
(*   mfs   : Seq([p, ok, comp, signed, usize, entries])  Manifest files    *)
(*           entries : Seq([tag, p, size, ck, odd]), p relative to the     *)
(*           Manifest's directory, ck = Seq(<<hashname, digest atom>>)     *)
(*   top   : path of the top-level Manifest                                *)
(* A digest atom equals a node's cid iff the recorded digest is the digest *)
(* of that content under that hash name.                                   *)
(*                                                                         *)
(* Everything here is a pure operator; the state machines (Verify, Update, *)
(* ...) and the trace specifications are judged against these.            *)
(***************************************************************************)
EXTENDS Naturals, Integers, Sequences, FiniteSets, TLC

IsPfx(p, q)     == Len(p) <= Len(q) /\ SubSeq(q, 1, Len(p)) = p
StrictPfx(p, q) == Len(p) < Len(q) /\ SubSeq(q, 1, Len(p)) = p
Dir(p)          == IF Len(p) = 0 THEN <<>> ELSE SubSeq(p, 1, Len(p) - 1)
SeqSet(sq)      == {sq[i] : i \in DOMAIN sq}

CompatTags == {"MANIFEST", "DATA", "EBUILD", "AUX"}
NoLast     == -1

NodeSet(s)    == SeqSet(s.nodes)
HasNode(s, p) == \E n \in NodeSet(s) : n.p = p
NodeAt(s, p)  == CHOOSE n \in NodeSet(s) : n.p = p
Kind(s, p)    == IF p = <<>> THEN "dir"
                 ELSE IF HasNode(s, p) THEN NodeAt(s, p).k ELSE "absent"

MfSet(s)    == SeqSet(s.mfs)
MfPaths(s)  == {m.p : m \in MfSet(s)}
MfAt(s, p)  == CHOOSE m \in MfSet(s) : m.p = p
Ents(m)     == SeqSet(m.entries)
Full(m, e)  == Dir(m.p) \o e.p

(* --- a file against an entry ------------------------------------------ *)
CkOK(n, e) == \A i \in DOMAIN e.ck : e.ck[i][2] = n.cid

FileStrict(s, f, e) ==
    /\ Kind(s, f) = "file"
    /\ LET n == NodeAt(s, f) IN n.size = e.size /\ CkOK(n, e)

(* with a last-verification mtime the digests of a file that is not newer  *)
(* and whose size is unchanged (and non-zero) MAY be skipped               *)
FileMay(s, f, e, last) ==
    /\ Kind(s, f) = "file"
    /\ LET n == NodeAt(s, f) IN
         /\ n.size = e.size
         /\ \/ CkOK(n, e)
            \/ (last # NoLast /\ n.size # 0 /\ n.mt <= last)

(* --- the hash chain (C02) --------------------------------------------- *)
Relevant(sub, mdir) == IsPfx(mdir, sub) \/ IsPfx(sub, mdir)

RECURSIVE AccFix(_, _, _, _)
AccFix(s, sub, acc, fuel) ==
    IF fuel = 0 THEN acc
    ELSE LET cand == { f \in MfPaths(s) \ acc :
                         \E mp \in acc : \E e \in Ents(MfAt(s, mp)) :
                            /\ e.tag = "MANIFEST" /\ ~e.odd
                            /\ Full(MfAt(s, mp), e) = f
                            /\ Relevant(sub, Dir(f))
                            /\ FileStrict(s, f, e) }
         IN IF cand = {} THEN acc ELSE AccFix(s, sub, acc \cup cand, fuel - 1)

(* Manifests that may be trusted when working on sub: the top-level one and *)
(* every one whose file matches a MANIFEST entry of an already accepted one *)
Accepted(s, sub) ==
    IF s.top \in MfPaths(s) THEN AccFix(s, sub, {s.top}, Cardinality(MfSet(s))) ELSE {}

AllParsable(s, acc) == \A mp \in acc : MfAt(s, mp).ok

(* file-style entries (incl. IGNORE) of accepted Manifests under sub, as   *)
(* <<full path, entry>>                                                    *)
FileEnts(s, sub, acc) ==
    UNION { { <<Full(MfAt(s, mp), e), e>> :
                 e \in { x \in Ents(MfAt(s, mp)) :
                           x.tag \notin {"DIST", "TIMESTAMP"} /\ IsPfx(sub, Full(MfAt(s, mp), x)) } }
            : mp \in acc }

AllEnts(s, acc) ==
    UNION { { <<Full(MfAt(s, mp), e), e>> :
                 e \in { x \in Ents(MfAt(s, mp)) : x.tag \notin {"DIST", "TIMESTAMP"} } }
            : mp \in acc }

CkCompat(e1, e2) ==
    \A i \in DOMAIN e1.ck : \A j \in DOMAIN e2.ck :
        e1.ck[i][1] = e2.ck[j][1] => e1.ck[i][2] = e2.ck[j][2]

Compatible(e1, e2) ==
    /\ (e1.tag = e2.tag \/ (e1.tag \in CompatTags /\ e2.tag \in CompatTags))
    /\ (e1.tag = "IGNORE" \/ (e1.size = e2.size /\ CkCompat(e1, e2)))

AllCompatible(FE) == \A x \in FE : \A y \in FE : x[1] = y[1] => Compatible(x[2], y[2])

HasGroup(FE, p)  == \E x \in FE : x[1] = p
IgnoreEnts(FE)   == { x \in FE : x[2].tag = "IGNORE" }
UnderIgnore(FE, p) == \E y \in IgnoreEnts(FE) : StrictPfx(y[1], p)

(* --- the walk ----------------------------------------------------------- *)
ChildrenOf(s, d) == { n \in NodeSet(s) : Len(n.p) = Len(d) + 1 /\ IsPfx(d, n.p) }

(* directories the verifier descends into from d: not hidden, and without  *)
(* any entry (IGNORE prunes; any other entry means "should be a file")     *)
DescendFrom(s, FE, d) ==
    { n.p : n \in { c \in ChildrenOf(s, d) : c.k = "dir" /\ ~c.h /\ ~HasGroup(FE, c.p) } }

RECURSIVE VisitFix(_, _, _, _)
VisitFix(s, FE, V, fuel) ==
    IF fuel = 0 THEN V
    ELSE LET nw == UNION { IF Kind(s, d) = "dir" /\ (d = <<>> \/ ~NodeAt(s, d).loop)
                           THEN DescendFrom(s, FE, d) ELSE {} : d \in V } \ V
         IN IF nw = {} THEN V ELSE VisitFix(s, FE, V \cup nw, fuel - 1)

Visited(s, FE, sub) == VisitFix(s, FE, {sub}, Len(s.nodes) + 1)

(* non-directories the walk finds *)
Found(s, V) == { n.p : n \in { c \in NodeSet(s) : Dir(c.p) \in V /\ c.k # "dir" /\ ~c.h } }

LoopHit(s, V) == \E d \in V : d # <<>> /\ Kind(s, d) = "dir" /\ NodeAt(s, d).loop

(* --- Matches ------------------------------------------------------------ *)
(* strict reading: what must be accepted;  may reading: what may be accepted *)
StraysStrict(s, FE, V) == { f \in Found(s, V) : f # s.top /\ ~HasGroup(FE, f) }
StraysMay(s, FE, V)    == { f \in StraysStrict(s, FE, V) : Kind(s, f) # "dangling" }

BadEntsStrict(s, FE) == { x \in FE : x[2].tag # "IGNORE" /\ ~FileStrict(s, x[1], x[2]) }
BadEntsMay(s, FE, last) ==
    { x \in FE : x[2].tag # "IGNORE" /\ ~UnderIgnore(FE, x[1]) /\ ~FileMay(s, x[1], x[2], last) }

ChainBroken(s, sub, acc) ==
    \E mp \in acc : \E e \in Ents(MfAt(s, mp)) :
        /\ e.tag = "MANIFEST" /\ ~e.odd
        /\ Relevant(sub, Dir(Full(MfAt(s, mp), e)))
        /\ Full(MfAt(s, mp), e) # mp
        /\ ~FileStrict(s, Full(MfAt(s, mp), e), e)

MatchesStrict(s, sub) ==
    LET acc == Accepted(s, sub)
        FE  == FileEnts(s, sub, acc)
        V   == Visited(s, FE, sub)
    IN /\ acc # {} /\ AllParsable(s, acc) /\ ~ChainBroken(s, sub, acc)
       /\ AllCompatible(FE)
       /\ BadEntsStrict(s, FE) = {}
       /\ StraysStrict(s, FE, V) = {}
       /\ ~LoopHit(s, V)

MatchesMay(s, sub, last) ==
    LET acc == Accepted(s, sub)
        FE  == FileEnts(s, sub, acc)
        V   == Visited(s, FE, sub)
    IN /\ acc # {} /\ AllParsable(s, acc) /\ ~ChainBroken(s, sub, acc)
       /\ AllCompatible(FE)
       /\ BadEntsMay(s, FE, last) = {}
       /\ StraysMay(s, FE, V) = {}
       /\ ~LoopHit(s, V)

(* lenient zones: the property statement does not say what happens          *)
OddPaths(s)        == \E m \in MfSet(s) : \E e \in Ents(m) : e.odd
SubIgnored(s, sub, acc) == \E x \in IgnoreEnts(AllEnts(s, acc)) : IsPfx(x[1], sub)
SubNotDir(s, sub)  == Kind(s, sub) # "dir"
BeneathNonDir(s, FE) ==
    \E x \in FE : \E q \in { SubSeq(x[1], 1, k) : k \in 1..(Len(x[1]) - 1) } :
        Kind(s, q) \in {"file", "other", "dangling"}

(* --- Offending paths (C07) ---------------------------------------------- *)
OffendingStrict(s, sub) ==
    LET acc == Accepted(s, sub)
        FE  == FileEnts(s, sub, acc)
        V   == Visited(s, FE, sub)
    IN { x[1] : x \in BadEntsStrict(s, FE) } \cup StraysStrict(s, FE, V)

OffendingMust(s, sub, last) ==
    LET acc == Accepted(s, sub)
        FE  == FileEnts(s, sub, acc)
        V   == Visited(s, FE, sub)
    IN { x[1] : x \in BadEntsMay(s, FE, last) } \cup StraysMay(s, FE, V)

=============================================================================
