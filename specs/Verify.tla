------------------------------- MODULE Verify -------------------------------
(***************************************************************************)
(* Layer A: the recursive verifier as the implementation runs it           *)
(* (recursiveloader.py: load_manifests_for_path, get_file_entry_dict,      *)
(* assert_directory_verifies with its walker, SubprocessVerifier, the      *)
(* trailing missing-directory pass; verify.py: verify_path).               *)
(*                                                                         *)
(* One behaviour = one call of assert_directory_verifies(sub, handler,     *)
(* last_mtime) on one scenario.  The scenario families (Init) are the      *)
(* bounded models of DESIGN C01/C02/C07; the invariants tie the algorithm  *)
(* to the Layer-P meaning in Glep74.  The same scenarios are exported      *)
(* (PrintT(ToJson)) and replayed into the real code.                       *)
(***************************************************************************)
EXTENDS Glep74, Json, SequencesExt

CONSTANTS Family,        \* "flat" | "nest" | "mut"
          Names,         \* flat: names of the slots in the single directory
          Keep,          \* set of BOOLEAN: keep-going mode(s) to explore
          Lasts,         \* set of last-mtime values (NoLast = none)
          ShortCircuit,  \* TRUE reproduces the historical all()-over-lazy-iterator defect (F1)
          Export         \* TRUE: print every finished behaviour as JSON

VARIABLES scn, sub, last, keep, pc, loaded, edict, walk, reported, result
vars == <<scn, sub, last, keep, pc, loaded, edict, walk, reported, result>>

(* ------------------------------------------------------------------------ *)
(* scenario construction helpers                                             *)
Nd(p, k, cid, size, mt) ==
    [p |-> p, k |-> k, h |-> (p[Len(p)] = "h"), cid |-> cid, size |-> size, mt |-> mt,
     dev |-> 1, ino |-> 0, loop |-> FALSE]
DirNd(p, ino) ==
    [p |-> p, k |-> "dir", h |-> (p[Len(p)] = "h"), cid |-> "", size |-> 0, mt |-> 0,
     dev |-> 1, ino |-> ino, loop |-> FALSE]
En(tag, p, size, ck) == [tag |-> tag, p |-> p, size |-> size, ck |-> ck, odd |-> FALSE]
Ig(p) == En("IGNORE", p, 0, <<>>)
Mf(p, ents) == [p |-> p, ok |-> TRUE, comp |-> "plain", signed |-> FALSE, usize |-> 0, entries |-> ents]

CSize(c) == IF c = "c2" THEN 5 ELSE 3          \* c0, c1: equal size, different content
Cat(ss) == FoldLeft(LAMBDA a, b : a \o b, <<>>, ss)

(* ---- family "flat": one directory, every slot independently ------------ *)
NodeChoices  == {"absent", "c0", "c1", "c2", "dir", "dirm", "other"}
EntryChoices == {"none", "d0", "d0x", "d1", "d2", "ign", "dupok", "dupbad", "dupbadx", "duptype"}

FlatNodes(asg) ==
    Cat([ i \in 1..Len(asg) |->
        LET n == asg[i][1]  c == asg[i][2] IN
        CASE c = "absent" -> <<>>
          [] c \in {"c0", "c1", "c2"} -> << Nd(<<n>>, "file", c, CSize(c), 50) >>
          [] c = "dir"   -> << DirNd(<<n>>, i + 10), Nd(<<n, "inner">>, "file", "c0", 3, 50) >>
          [] c = "dirm"  -> \* a directory holding an unlisted file that is named like the top-level Manifest
                            << DirNd(<<n>>, i + 10), Nd(<<n, "Manifest">>, "file", "c0", 3, 50) >>
          [] c = "other" -> << Nd(<<n>>, "other", "", 0, 0) >> ])

FlatEntries(asg) ==
    Cat([ i \in 1..Len(asg) |->
        LET n == asg[i][1]  c == asg[i][3] IN
        CASE c = "none"   -> <<>>
          [] c = "d0"     -> << En("DATA", <<n>>, 3, << <<"SHA1", "c0">> >>) >>
          [] c = "d0x"    -> << En("DATA", <<n>>, 3, << <<"MD5", "c0">>, <<"SHA1", "c0">> >>) >>
          [] c = "d1"     -> << En("DATA", <<n>>, 3, << <<"SHA1", "c1">> >>) >>
          [] c = "d2"     -> << En("DATA", <<n>>, 5, << <<"SHA1", "c2">> >>) >>
          [] c = "ign"    -> << Ig(<<n>>) >>
          [] c = "dupok"  -> << En("DATA", <<n>>, 3, << <<"SHA1", "c0">> >>),
                                En("EBUILD", <<n>>, 3, << <<"MD5", "c0">> >>) >>
          [] c = "dupbad" -> << En("DATA", <<n>>, 3, << <<"SHA1", "c0">> >>),
                                En("DATA", <<n>>, 3, << <<"SHA1", "c1">> >>) >>
          [] c = "dupbadx" -> \* conflict on one shared hash, a later-sorted hash in one entry only
                             << En("DATA", <<n>>, 3, << <<"MD5", "c1">>, <<"SHA1", "c0">> >>),
                                En("DATA", <<n>>, 3, << <<"MD5", "c0">>, <<"SHA1", "c0">>,
                                                        <<"SHA512", "c0">> >>) >>
          [] c = "duptype" -> << En("DATA", <<n>>, 3, << <<"SHA1", "c0">> >>),
                                 En("MISC", <<n>>, 3, << <<"SHA1", "c0">> >>) >> ])

NameSeq == SetToSeq(Names)
FlatScn(f) ==     \* f \in [1..Len(NameSeq) -> NodeChoices \X EntryChoices]
    LET asg == [ i \in 1..Len(NameSeq) |-> <<NameSeq[i], f[i][1], f[i][2]>> ] IN
    [ nodes |-> FlatNodes(asg) \o << Nd(<<"Manifest">>, "file", "m0", 100, 900) >>,
      mfs   |-> << Mf(<<"Manifest">>, FlatEntries(asg)) >>,
      top   |-> <<"Manifest">> ]

(* ---- family "nest": root/d/e, Manifests at several levels, chain -------- *)
(* chain[k] \in {"none","ok","stale"} for Manifests d/Manifest and d/e/Manifest ;     *)
(* where the entry for d/e/x lives; IGNORE on d vs. the look-alike da                  *)
NestScn(md, me, xin, xnode, ign) ==
    LET x  == <<"d", "e", "x">>
        xe(rel) == En("DATA", rel, 3, << <<"SHA1", "c0">> >>)
        eEnts == IF xin = "e" THEN << xe(<<"x">>) >> ELSE <<>>
        dEnts == (IF xin = "d" \/ xin = "both" THEN << xe(<<"e", "x">>) >> ELSE <<>>)
                 \o (IF me # "none"
                     THEN << En("MANIFEST", <<"e", "Manifest">>, 200,
                                << <<"SHA1", IF me = "ok" THEN "me" ELSE "jstale">> >>) >>
                     ELSE <<>>)
        rEnts == (IF xin = "root" \/ (xin = "both") THEN << xe(x) >> ELSE <<>>)
                 \o (IF md # "none"
                     THEN << En("MANIFEST", <<"d", "Manifest">>, 300,
                                << <<"SHA1", IF md = "ok" THEN "md" ELSE "jstale">> >>) >>
                     ELSE <<>>)
                 \o (IF ign = "d" THEN << Ig(<<"d">>) >> ELSE
                     IF ign = "da" THEN << Ig(<<"da">>) >> ELSE
                     IF ign = "de" THEN << Ig(<<"d", "e">>) >> ELSE <<>>)
                 \o << En("DATA", <<"da">>, 3, << <<"SHA1", "c0">> >>) >>
        dHasM == md # "none"
        eHasM == me # "none" /\ dHasM
    IN [ nodes |-> << Nd(<<"Manifest">>, "file", "m0", 100, 900),
                      Nd(<<"da">>, "file", "c0", 3, 50),
                      DirNd(<<"d">>, 11), DirNd(<<"d", "e">>, 12) >>
                   \o (IF xnode = "absent" THEN <<>> ELSE << Nd(x, "file", xnode, CSize(xnode), 50) >>)
                   \o (IF dHasM THEN << Nd(<<"d", "Manifest">>, "file", "md", 300, 900) >> ELSE <<>>)
                   \o (IF eHasM THEN << Nd(<<"d", "e", "Manifest">>, "file", "me", 200, 900) >> ELSE <<>>),
         mfs |-> << Mf(<<"Manifest">>, rEnts) >>
                   \o (IF dHasM THEN << Mf(<<"d", "Manifest">>, dEnts) >> ELSE <<>>)
                   \o (IF eHasM THEN << Mf(<<"d", "e", "Manifest">>, eEnts) >> ELSE <<>>),
         top |-> <<"Manifest">> ]

Scenarios ==
    IF Family = "flat"
    THEN { FlatScn(f) : f \in [1..Len(NameSeq) -> NodeChoices \X EntryChoices] }
    ELSE { NestScn(md, me, xin, xn, ig) :
              md \in {"none", "ok", "stale"}, me \in {"none", "ok", "stale"},
              xin \in {"none", "root", "d", "e", "both"}, xn \in {"absent", "c0", "c1", "c2"},
              ig \in {"no", "d", "da", "de"} }

(* flat: the whole tree, and the first slot as sub-path (it may be listed as a file yet be a directory) *)
Subs == IF Family = "flat" THEN { <<>>, <<NameSeq[1]>> } ELSE { <<>>, <<"d">>, <<"d", "e">> }

(* ------------------------------------------------------------------------ *)
(* the algorithm                                                             *)

ToLoadOf(s, sb, ld) ==
    UNION { { <<Full(MfAt(s, mp), e), e>> :
                e \in { x \in Ents(MfAt(s, mp)) :
                          /\ x.tag = "MANIFEST"
                          /\ Full(MfAt(s, mp), x) # mp
                          /\ Full(MfAt(s, mp), x) \notin ld
                          /\ Relevant(sb, Dir(Full(MfAt(s, mp), x))) } }
            : mp \in ld }

(* verify_path for one path against one (merged) entry: "ok" or "bad" *)
VerifyOne(s, f, e, lst) ==
    IF e.tag = "IGNORE" THEN "ok"
    ELSE IF Kind(s, f) # "file" THEN "bad"
    ELSE LET n == NodeAt(s, f) IN
         IF n.size # 0 /\ n.size # e.size THEN "bad"
         ELSE IF lst # NoLast /\ n.mt <= lst /\ n.size # 0 THEN "ok"
         ELSE IF n.size # e.size \/ ~CkOK(n, e) THEN "bad" ELSE "ok"

(* merging of duplicate entries as get_file_entry_dict does: the union of   *)
(* the checksums, the tag of the one met last                                *)
MergeCk(a, b) ==       \* b's pairs plus those of a whose hash b lacks
    b \o SelectSeq(a, LAMBDA pr : ~\E j \in DOMAIN b : b[j][1] = pr[1])

RECURSIVE Collect(_, _)
Collect(seq, acc) ==   \* acc: [ok |-> BOOLEAN, d |-> function full path -> merged entry]
    IF seq = <<>> \/ ~acc.ok THEN acc
    ELSE LET f == seq[1][1]  e == seq[1][2] IN
         IF f \in DOMAIN acc.d
         THEN IF ~Compatible(acc.d[f], e) THEN [ok |-> FALSE, d |-> acc.d]
              ELSE Collect(Tail(seq),
                           [acc EXCEPT !.d[f] = IF e.tag = "IGNORE" THEN e
                                                ELSE [e EXCEPT !.ck = MergeCk(acc.d[f].ck, e.ck)]])
         ELSE Collect(Tail(seq), [acc EXCEPT !.d = (f :> e) @@ acc.d])

EmptyFn == [x \in {} |-> x]

Init ==
    /\ scn \in Scenarios
    /\ sub \in Subs
    /\ last \in Lasts
    /\ keep \in Keep
    /\ pc = "start" /\ loaded = {} /\ edict = EmptyFn /\ walk = <<>> /\ reported = <<>>
    /\ result = "none"

LoadTop ==
    /\ pc = "start"
    /\ IF ~MfAt(scn, scn.top).ok
       THEN /\ result' = "syntax" /\ pc' = "done" /\ UNCHANGED loaded
       ELSE /\ loaded' = {scn.top} /\ pc' = "load" /\ UNCHANGED result
    /\ UNCHANGED <<scn, sub, last, keep, edict, walk, reported>>

LoadRound ==
    /\ pc = "load"
    /\ LET tl == ToLoadOf(scn, sub, loaded) IN
       IF tl = {}
       THEN /\ pc' = "collect" /\ UNCHANGED <<loaded, result>>
       ELSE IF \E x \in tl : ~FileStrict(scn, x[1], x[2])
            THEN /\ result' = "mismatch" /\ pc' = "done" /\ UNCHANGED loaded
            ELSE IF \E x \in tl : ~MfAt(scn, x[1]).ok
                 THEN /\ result' = "syntax" /\ pc' = "done" /\ UNCHANGED loaded
                 ELSE /\ loaded' = loaded \cup { x[1] : x \in tl }
                      /\ UNCHANGED <<pc, result>>
    /\ UNCHANGED <<scn, sub, last, keep, edict, walk, reported>>

CollectEntries ==
    /\ pc = "collect"
    /\ LET FE  == FileEnts(scn, sub, loaded)
           res == Collect(SetToSeq(FE), [ok |-> TRUE, d |-> EmptyFn]) IN
       IF ~res.ok
       THEN /\ result' = "incompatible" /\ pc' = "done" /\ UNCHANGED <<edict, walk>>
       ELSE IF SubNotDir(scn, sub)
       THEN \* os.walk on something that is no directory: the OSError (ENOTDIR / ENOENT) is raised, in
            \* keep-going mode as well
            /\ result' = "oserror" /\ pc' = "done" /\ UNCHANGED <<edict, walk>>
       ELSE /\ edict' = res.d /\ walk' = <<sub>> /\ pc' = "walk" /\ UNCHANGED result
    /\ UNCHANGED <<scn, sub, last, keep, loaded, reported>>

(* results of checking everything the verifier looks at in directory d *)
DirChecks(d) ==
    LET kids  == ChildrenOf(scn, d)
        dd    == { f \in DOMAIN edict : Dir(f) = d }
        dirsWithEntry == { c.p : c \in { k \in kids : k.k = "dir" /\ ~k.h /\ k.p \in dd
                                                      /\ edict[k.p].tag # "IGNORE" } }
        files == { c.p : c \in { k \in kids : k.k # "dir" /\ ~k.h /\ k.p # scn.top } }
        ignoredDirs == { c.p : c \in { k \in kids : k.k = "dir" /\ ~k.h /\ k.p \in dd
                                                    /\ edict[k.p].tag = "IGNORE" } }
        look  == dirsWithEntry \cup files \cup (dd \ ignoredDirs)
    IN { f \in look :
           IF f \in dd THEN VerifyOne(scn, f, edict[f], last) = "bad"
           ELSE Kind(scn, f) # "dangling" }      \* no entry: the file must not exist

WalkDir ==
    /\ pc = "walk" /\ walk # <<>>
    /\ LET d    == Head(walk)
           bad  == DirChecks(d)
           dd   == { f \in DOMAIN edict : Dir(f) = d }
           next == SetToSeq(DescendFrom(scn, { <<f, edict[f]>> : f \in DOMAIN edict }, d))
       IN /\ edict' = [ f \in DOMAIN edict \ dd |-> edict[f] ]
          /\ IF bad # {} /\ ~keep
             THEN /\ result' = "mismatch" /\ pc' = "done" /\ UNCHANGED <<walk, reported>>
             ELSE /\ reported' = reported \o SetToSeq(bad)
                  /\ IF ShortCircuit /\ bad # {}
                     THEN /\ walk' = <<>> /\ pc' = "missing"    \* F1: remaining directories dropped
                     ELSE /\ walk' = next \o Tail(walk) /\ UNCHANGED pc
                  /\ UNCHANGED result
    /\ UNCHANGED <<scn, sub, last, keep, loaded>>

WalkEnd ==
    /\ pc = "walk" /\ walk = <<>>
    /\ pc' = "missing"
    /\ UNCHANGED <<scn, sub, last, keep, loaded, edict, walk, reported, result>>

MissingPass ==
    /\ pc = "missing"
    /\ LET bad == { f \in DOMAIN edict : VerifyOne(scn, f, edict[f], last) = "bad" } IN
       IF bad # {} /\ ~keep
       THEN /\ result' = "mismatch" /\ UNCHANGED reported
       ELSE /\ reported' = reported \o SetToSeq(bad)
            /\ result' = "ok"
    /\ pc' = "done"
    /\ UNCHANGED <<scn, sub, last, keep, loaded, edict, walk>>

Finished ==
    /\ pc = "done"
    /\ pc' = "printed"
    /\ Export => PrintT(ToJson([s |-> scn, sub |-> sub, last |-> last, keep |-> keep,
                                 result |-> result, reported |-> reported]))
    /\ UNCHANGED <<scn, sub, last, keep, loaded, edict, walk, reported, result>>

Next == LoadTop \/ LoadRound \/ CollectEntries \/ WalkDir \/ WalkEnd \/ MissingPass \/ Finished

Spec == Init /\ [][Next]_vars

(* ------------------------------------------------------------------------ *)
(* design-level properties: the algorithm against the meaning                *)
Lenient == LET acc == Accepted(scn, sub) IN
           OddPaths(scn) \/ SubIgnored(scn, sub, acc) \/ SubNotDir(scn, sub)

RepSet == SeqSet(reported)

C01_Sound ==      \* success is never reported unless the tree matches (may-reading)
    (pc = "done" /\ ~keep /\ result = "ok" /\ ~Lenient) => MatchesMay(scn, sub, last)

C01_Complete ==   \* a matching tree is accepted
    (pc = "done" /\ ~keep /\ ~Lenient /\ MatchesStrict(scn, sub)) => result = "ok"

C01_Exact ==      \* without a last-mtime the two readings coincide: iff
    (pc = "done" /\ ~keep /\ ~Lenient /\ last = NoLast) => ((result = "ok") <=> MatchesStrict(scn, sub))

C01_Incompatible ==
    (pc = "done" /\ ~Lenient) =>
        ((result = "incompatible") <=>
            LET acc == Accepted(scn, sub) IN
            /\ AllParsable(scn, acc) /\ ~ChainBroken(scn, sub, acc)
            /\ ~AllCompatible(FileEnts(scn, sub, acc)))

C02_Chain ==      \* only chain-accepted Manifests are ever loaded
    loaded \subseteq Accepted(scn, sub)

C02_Broken ==
    (pc = "done" /\ ChainBroken(scn, sub, Accepted(scn, sub))) => result = "mismatch"

C07_Exact ==      \* keep-going: every offending path exactly once, no other
    (pc = "done" /\ keep /\ result = "ok" /\ ~Lenient) =>
        /\ OffendingMust(scn, sub, last) \subseteq RepSet
        /\ RepSet \subseteq OffendingStrict(scn, sub)
        /\ Len(reported) = Cardinality(RepSet)

C07_Returns ==    \* structural soundness: in keep-going mode mismatches never raise
    (pc = "done" /\ keep /\ ~Lenient) => result \in {"ok", "incompatible", "syntax", "mismatch"}
=============================================================================
