SPECIFICATION Spec
CONSTANTS
  MaxLen = 4
  PreambleArmorCheck = TRUE
INVARIANT Conforms
INVARIANT BodyOnly
INVARIANT NoSigEntries
