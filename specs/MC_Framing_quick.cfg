SPECIFICATION Spec
CONSTANTS
  MaxLen = 4
  NulHeaderCheck = TRUE
  PreambleArmorCheck = TRUE
INVARIANT Conforms
INVARIANT BodyOnly
INVARIANT NoSigEntries
