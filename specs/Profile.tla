------------------------------- MODULE Profile -------------------------------
(***************************************************************************)
(* C19: the ebuild-repository profiles.                                    *)
(* Layer P (policy, by the ROLE a directory plays in an ebuild repository) *)
(*   WantManifest(role), DefaultIgnores(role), EntryTag(profile, role of   *)
(*   the directory, file class), Defaults(profile).                        *)
(* Layer A: want_manifest_in_directory / get_entry_type_for_path as the    *)
(*   implementation decides them: from depth, names and directory content. *)
(* TLC checks that the heuristics agree with the policy on every directory *)
(* description consistent with its role.                                   *)
(***************************************************************************)
EXTENDS Naturals, Sequences, FiniteSets, TLC

Roles == {"root", "category", "package", "pkgfiles", "pkgfiles-sub", "eclass", "licenses", "profiles", "profiles-sub",
          "metadata", "metadata-std", "md5-cache-cat", "metadata-other", "ignored-top", "top-plain"}
MetadataStd == {"dtd", "glsa", "md5-cache", "news", "xml-schema"}
FileClasses == {"ebuild", "metadata.xml", "other"}

(* ---- Layer P ---- *)
WantManifest(profile, role) ==
    IF profile = "default" THEN role = "root"
    ELSE role \in {"root", "category", "package", "eclass", "licenses", "profiles", "metadata", "metadata-std",
                   "md5-cache-cat"}

DefaultIgnores(profile, role, name) ==       \* IGNORE entries a NEW Manifest in that directory gets
    IF profile = "default" THEN {}
    ELSE IF role = "root" THEN {"distfiles", "local", "lost+found", "packages"}
    ELSE IF role = "metadata" THEN {"timestamp", "timestamp.chk", "timestamp.commit", "timestamp.x"}
    ELSE IF role = "metadata-std" /\ name \in {"dtd", "glsa", "news", "xml-schema"} THEN {"timestamp.chk", "timestamp.commit"}
    ELSE {}

EntryTag(profile, dirrole, fclass) ==
    IF profile # "old-ebuild" THEN "DATA"
    ELSE IF dirrole = "package" /\ fclass = "ebuild" THEN "EBUILD"
    ELSE IF dirrole = "package" /\ fclass = "metadata.xml" THEN "MISC"
    ELSE IF dirrole \in {"pkgfiles", "pkgfiles-sub"} THEN "AUX"
    ELSE "DATA"

DefaultHashes(profile) == IF profile = "default" THEN {} ELSE {"BLAKE2B", "SHA512"}
DefaultSort(profile)   == profile # "default"
DefaultWatermark(profile) == IF profile = "default" THEN 0 ELSE 128        \* default profile: none

(* ---- directory descriptions consistent with a role ---- *)
(* [role, depth, name, parent (name of depth-1 ancestor), grand, subdirs (BOOLEAN), files \subseteq FileClasses] *)
Consistent(d) ==
    CASE d.role = "root"      -> d.depth = 0
      [] d.role = "category"  -> d.depth = 1 /\ d.name = "cat" /\ d.subdirs /\ "ebuild" \notin d.files
      [] d.role = "package"   -> d.depth = 2 /\ d.parent = "cat" /\ "ebuild" \in d.files
      [] d.role = "pkgfiles"  -> d.depth = 3 /\ d.name = "files" /\ d.grand = "cat" /\ d.files \subseteq {"other"}
      [] d.role = "pkgfiles-sub" -> d.depth = 4 /\ d.parent = "files" /\ d.files \subseteq {"other"}
      [] d.role \in {"eclass", "licenses", "profiles"} -> d.depth = 1 /\ d.name = d.role /\ d.files \subseteq {"other"}
      [] d.role = "profiles-sub" -> d.depth >= 2 /\ d.parent = "profiles" /\ d.files \subseteq {"other"}
      [] d.role = "metadata"  -> d.depth = 1 /\ d.name = "metadata" /\ d.files \subseteq {"other"}
      [] d.role = "metadata-std" -> d.depth = 2 /\ d.parent = "metadata" /\ d.name \in MetadataStd /\ d.files \subseteq {"other"}
      [] d.role = "md5-cache-cat" -> d.depth = 3 /\ d.name = "cat" /\ d.grand = "metadata" /\ d.parent = "md5-cache" /\ d.files \subseteq {"other"}
      [] d.role = "metadata-other" -> d.depth = 2 /\ d.parent = "metadata" /\ d.name = "misc" /\ d.files \subseteq {"other"}
      [] d.role = "ignored-top" -> d.depth = 1 /\ d.name \in {"distfiles", "local", "packages"}
      [] d.role = "top-plain" -> d.depth = 1 /\ d.name = "plain" /\ ~d.subdirs /\ d.files \subseteq {"other"}

Names == {"", "cat", "pkg", "files", "eclass", "licenses", "profiles", "metadata", "misc", "plain", "sub",
          "distfiles", "local", "packages"} \cup MetadataStd

Descrs == { d \in [role : Roles, depth : 0..4, name : Names, parent : Names, grand : Names, subdirs : BOOLEAN,
                   files : SUBSET FileClasses] : Consistent(d) }

(* ---- Layer A: the heuristics of EbuildRepositoryProfile ---- *)
HeurWant(d) ==
    \/ "metadata.xml" \in d.files
    \/ d.depth = 1 /\ (d.subdirs \/ d.name \in {"eclass", "licenses", "metadata", "profiles"})
    \/ d.depth = 2 /\ ("ebuild" \in d.files \/ (d.parent = "metadata" /\ d.name \in MetadataStd))
    \/ d.depth = 3 /\ d.grand = "metadata" /\ d.parent = "md5-cache"

(* third path component "files" => AUX (old-ebuild), 3 components + .ebuild => EBUILD, metadata.xml => MISC *)
HeurTag(d, fclass) ==
    IF d.depth = 2 /\ fclass = "ebuild" THEN "EBUILD"
    ELSE IF d.depth = 2 /\ fclass = "metadata.xml" THEN "MISC"
    ELSE IF (d.depth = 3 /\ d.name = "files") \/ (d.depth = 4 /\ d.parent = "files") THEN "AUX"
    ELSE "DATA"

VARIABLES d, checked
vars == <<d, checked>>
Init == d \in Descrs /\ checked = FALSE
Step == ~checked /\ checked' = TRUE /\ UNCHANGED d
Spec == Init /\ [][Step]_vars

(* directories the walk reaches (ignored-top is pruned by the default IGNOREs, root is special-cased) *)
Walked == d.role \notin {"root", "ignored-top"}

(* known divergences between heuristics and policy, kept visible: *)
(*  - a top-level directory with sub-directories gets a Manifest whatever its role (top-plain has none) *)
(*  - profiles/<x>/files/... is typed AUX by position (not generated by the drivers: lenient)            *)
PlacementAgrees == Walked => (HeurWant(d) <=> WantManifest("ebuild", d.role))
TypingAgrees ==
    (Walked /\ ~(d.role = "profiles-sub" /\ ((d.depth = 3 /\ d.name = "files") \/ (d.depth = 4 /\ d.parent = "files"))))
        => \A fc \in d.files : HeurTag(d, fc) = EntryTag("old-ebuild", d.role, fc)
=============================================================================
