SPECIFICATION Spec
CONSTANTS
  MaxLen = 6
  PreambleArmorCheck = TRUE
INVARIANT Conforms
INVARIANT BodyOnly
INVARIANT NoSigEntries
