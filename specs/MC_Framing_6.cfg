SPECIFICATION Spec
CONSTANTS
  MaxLen = 6
  NulHeaderCheck = TRUE
  PreambleArmorCheck = TRUE
INVARIANT Conforms
INVARIANT BodyOnly
INVARIANT NoSigEntries
