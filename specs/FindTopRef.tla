----------------------------- MODULE FindTopRef -----------------------------
(***************************************************************************)
(* Layer P for C15 (pure operators): the outermost covering Manifest.      *)
(* chain: Seq([mf, ign]) levels 1 (outermost) .. N; levels 1..cut are on   *)
(* another device; start: level of the starting directory.                 *)
(***************************************************************************)
EXTENDS Integers, Sequences, FiniteSets

DevOf(cut, l) == IF l <= cut THEN 2 ELSE 1
ConsideredIn(chain, allowC, l) == chain[l].mf = "plain" \/ (chain[l].mf = "gz" /\ allowC)
(* component-wise IGNORE match of the start path from level l *)
CoversIn(chain, start, l) == l < start /\ chain[l].ign \in {"path", "anc"}

OutermostOf(chain, cut, start, allowC, allowX) ==
    LET blocked(l) == ConsideredIn(chain, allowC, l) /\ CoversIn(chain, start, l)
        devok(l)   == allowX \/ DevOf(cut, l) = DevOf(cut, start)
        reach == { l \in 1..start : \A k \in l..start : ~blocked(k) /\ devok(k) }
    IN IF \E l \in reach : ConsideredIn(chain, allowC, l)
       THEN CHOOSE l \in reach : ConsideredIn(chain, allowC, l)
                                 /\ \A k \in reach : ConsideredIn(chain, allowC, k) => l <= k
       ELSE 0
=============================================================================
