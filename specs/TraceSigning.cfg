SPECIFICATION Spec
