SPECIFICATION FairSpec
CONSTANTS
  N = 4
  TopIdentityLost = FALSE
INVARIANT Bounded
INVARIANT Correct
PROPERTY Terminates
PROPERTY VerdictOnce
