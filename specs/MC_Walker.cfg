SPECIFICATION Spec
CONSTANTS
  N = 4
INVARIANT Bounded
INVARIANT Correct
