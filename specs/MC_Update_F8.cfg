SPECIFICATION Spec
CONSTANTS
  SaveSameDirFirst = TRUE
  SeedAllGoverning = FALSE
  RemoveByIdentity = FALSE
  QueueKept = TRUE
  ManifestWins = TRUE
  ForgetUnlinked = TRUE
  NoOverwriteOnRename = TRUE
  AdoptListed = TRUE
  Export = FALSE
INVARIANT C03_ExactCover_ModuloF14
INVARIANT C10_NothingBeforeSave
INVARIANT C10_FailedWritesNothing
INVARIANT C10_Preserved
INVARIANT C10_ForeignKept
INVARIANT C18_NoInternal
INVARIANT C13_Watermark
