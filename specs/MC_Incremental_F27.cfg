SPECIFICATION Spec
CONSTANTS
  Files = {"f1", "f2"}
  MaxClock = 6
  TzOffsets <- TzAll
  UtcRead = TRUE
  MaxRounds = 2
  HashSets <- HsTwo
  TrustAdopted = FALSE
  ShortcutChecksHashes = FALSE
INVARIANT IncEqualsFull
INVARIANT TimestampNotLate
