----------------------------- MODULE TraceUpdate -----------------------------
(***************************************************************************)
(* Trace validation of update steps recorded from the real code.           *)
(* Record: [id, s0, s1 (scenario before / after, Manifest records carry lp *)
(* = logical path), ev: [a, sub, hashes, opts: [sort, force, wm, fmt,      *)
(* profile, ts, incremental], end, exc, cli, stage], before_save,          *)
(* nonmf_changed, written, removed, second_changed: Seq(path),             *)
(* verify_after, second_end: STRING]                                        *)
(***************************************************************************)
EXTENDS UpdateRef, Json, IOUtils

Trace == ndJsonDeserialize(IOEnv.TRACE_FILE)
VARIABLES i, done
vars == <<i, done>>

CompNames == {"gz", "bz2", "lzma", "xz"}

Lenient(r) ==
    LET s1 == r.s1  sub == r.ev.sub  acc == Accepted(s1, sub) IN
    \* odd entry paths (".", "..", empty components) in the PRIOR Manifests are a lenient zone; odd paths
    \* that the update itself wrote are judged like any other entry
    (IF OddPaths(r.s0) THEN {"OddPath"} ELSE {})
    \cup (IF SubIgnored(r.s0, sub, Accepted(r.s0, <<>>)) \/ SubIgnored(s1, sub, acc) THEN {"SubIgnored"} ELSE {})
    \cup (IF \E n \in NodeSet(s1) : n.k \in {"other", "dangling"} THEN {"SpecialFile"} ELSE {})
    \* one physical Manifest file under two logical names (it lies in a directory that is also reached
    \* through a symlink): two loaded Manifests write one file, a Manifest created under one name appears
    \* as a stray under the other.  Flag computed by the harness from realpath.
    \cup (IF "mf_alias" \in DOMAIN r.ev /\ r.ev.mf_alias THEN {"AliasedManifest"} ELSE {})

C03(r) ==
    LET s == r.s1  sub == r.ev.sub  acc == Accepted(s, sub)
        hs == SeqSet(r.ev.hashes)
    IN (IF Uncovered(s, sub, acc) # {} THEN {"C03.Uncovered"} ELSE {})
       \cup (IF MultiCovered(s, sub, acc) # {} THEN {"C03.MultiCovered"} ELSE {})
       \cup (IF WrongEntries(s, sub, acc, hs) # {} THEN {"C03.WrongEntry"} ELSE {})
       \cup (IF DanglingEntries(s, sub, acc) # {} THEN {"C03.DanglingEntry"} ELSE {})
       \cup (IF acc # {} /\ ChainBroken(s, sub, acc) THEN {"C03.ChainStale"} ELSE {})
       \cup (IF ~MatchesStrict(s, sub) THEN {"C03.NotVerifying"} ELSE {})
       \cup (IF r.verify_after # "ok" /\ MatchesStrict(s, sub) THEN {"C03.FreshVerifyFails"} ELSE {})
       \* a further edit + update + save on the same loader object, then a fresh verification
       \cup (IF "same_loader" \in DOMAIN r /\ r.same_loader \notin {"", "ok"} THEN {"C03.SameLoaderRoundFails"} ELSE {})

(* other logical names of the updated directory and of directories inside it (symlinked        *)
(* directories): supplied by the harness from realpath                                        *)
Aliases(r) == IF "aliases" \in DOMAIN r.ev THEN { r.ev.aliases[ai] : ai \in DOMAIN r.ev.aliases } ELSE {}

C10(r) ==
    LET s0 == r.s0  s1 == r.s1  sub == r.ev.sub IN
    (IF r.before_save # <<>> THEN {"C10.WroteBeforeSave"} ELSE {})
    \cup (IF r.nonmf_changed # <<>> THEN {"C10.TouchedNonManifest"} ELSE {})
    \cup (IF r.ev.end = "ok" THEN
            (IF DistSet(s0) # DistSet(s1) THEN {"C10.DistChanged"} ELSE {})
            \cup (IF ~(IgnoreSet(s0) \subseteq IgnoreSet(s1)) THEN {"C10.IgnoreLost"} ELSE {})
            \cup (IF r.ev.opts.profile = "default" /\ ~(IgnoreSet(s1) \subseteq IgnoreSet(s0))
                  THEN {"C10.IgnoreAdded"} ELSE {})
            \cup (IF ~r.ev.opts.ts /\ TsSet(s0) # TsSet(s1) THEN {"C10.TimestampChanged"} ELSE {})
            \* (a file that is a Manifest of the tree afterwards may be - has to be - referenced as MANIFEST
            \* even if it was listed as a plain file before)
            \cup (IF \E f \in FilePaths(s0) \cap FilePaths(s1) :
                        ~(TagsOf(s1, f) \subseteq TagsOf(s0, f) \cup
                            (IF \E mm \in MfSet(s1) : mm.p = f /\ mm.ok THEN {"MANIFEST"} ELSE {}))
                  THEN {"C10.TagChanged"} ELSE {})
            \cup (IF OutsideSetA(s0, sub, Aliases(r), r.ev.opts.force) # OutsideSetA(s1, sub, Aliases(r), r.ev.opts.force) THEN {"C10.OutsideChanged"} ELSE {})
          ELSE {})

C12(r) ==
    (IF r.ev.end = "ok" /\ r.second_end = "ok" /\ r.second_changed # <<>> THEN {"C12.NotIdempotent"} ELSE {})
    \cup (IF r.ev.end = "ok" /\ r.second_end \notin {"ok", ""} THEN {"C12.SecondRunFails"} ELSE {})

(* watermark rule on the Manifests this save (re)wrote *)
C13(r) ==
    LET s0 == r.s0  s1 == r.s1  wm == r.ev.opts.wm
        W  == SeqSet(r.written)
        wr == { m \in MfSet(s1) : m.p \in W /\ m.ok }
        \* earlier incarnations of the logical Manifest: files that parse as Manifests
        \* (the file of the same name if there was one - two Manifests of one logical name may coexist -
        \* otherwise whatever had the logical name)
        before(m) == IF \E x \in MfSet(s0) : x.ok /\ x.p = m.p
                     THEN { x \in MfSet(s0) : x.ok /\ x.p = m.p }
                     ELSE { x \in MfSet(s0) : x.ok /\ x.lp = m.lp }
    IN IF r.ev.end # "ok" \/ wm < 0 THEN {}
       ELSE
       \* (a Manifest is never renamed onto a file that exists - another Manifest of the directory, also one
       \* that took the name earlier in the same save, or any file that happens to have the name: it then
       \* keeps its form)
       (IF \E m \in wr : m.p # s1.top /\ r.ev.opts.profile # "old-ebuild"
                /\ ((m.comp # "plain") # (m.usize >= wm))
                /\ ~(IF m.comp = "plain"
                     THEN \E n \in NodeSet(s0) \cup NodeSet(s1) : n.lp = m.lp /\ n.comp = r.ev.opts.fmt /\ n.p # m.p
                     ELSE \E n \in NodeSet(s0) \cup NodeSet(s1) : n.p = m.lp /\ n.p # m.p)
        THEN {"C13.WrongCompression"} ELSE {})
       \* (not judged when two Manifests of that logical name existed and the written file is a new name:
       \* which of the two it continues cannot be told from the states)
       \cup (IF \E m \in wr : \E x \in before(m) :
                   /\ x.comp # "plain" /\ m.comp # "plain" /\ x.comp # m.comp
                   /\ (x.p = m.p \/ Cardinality({ y \in MfSet(s0) : y.ok /\ y.lp = m.lp }) < 2)
             THEN {"C13.FormatChanged"} ELSE {})
       \cup (IF \E m \in wr : m.comp # "plain" /\ m.comp # r.ev.opts.fmt
                   /\ \A x \in before(m) : x.comp = "plain"
             THEN {"C13.NewFormat"} ELSE {})
       \cup (IF s0.top = <<"Manifest">> /\ s1.top # <<"Manifest">> THEN {"C13.TopCompressed"} ELSE {})
       \* a re-compressed Manifest keeps its logical name: every Manifest in use before is in use after,
       \* under its logical path with or without a compression suffix (its directory still existing)
       \* (a Manifest lying under an IGNOREd path or in a hidden directory is dropped from the tree by
       \* the update together with its MANIFEST entry: that is not a loss)
       \cup (IF \E x \in MfSet(s0) : x.reg /\ x.ok /\ Kind(s1, Dir(x.p)) = "dir"
                   /\ ~(\E q1 \in MfSet(s1) : q1.reg /\ q1.lp = x.lp)
                   /\ ~(\E q2 \in MfSet(s1) : q2.reg /\ \E ie \in Ents(q2) : ie.tag = "IGNORE" /\ IsPfx(Full(q2, ie), x.p))
                   /\ ~(\E hk \in 1..(Len(x.p) - 1) : HasNode(s1, SubSeq(x.p, 1, hk)) /\ NodeAt(s1, SubSeq(x.p, 1, hk)).h)
             THEN {"C13.LogicalManifestLost"} ELSE {})
       \cup (IF \E m \in wr : \E n \in MfSet(s1) :
                   /\ n.ok /\ n.p # m.p /\ n.lp = m.lp
                   /\ Cardinality({ x \in MfSet(s0) : x.ok /\ x.lp = m.lp }) < 2
             THEN {"C13.Leftover"} ELSE {})

(* group records: one tree, several variants (walk order / old entry order   *)
(* for C12, compression assignment for C13); all observations must coincide  *)
(* variants: Seq(Seq(<<name, digest, "W" (written in this run) | "-">>))     *)
GroupClauses(r) ==
    LET agree(a, b) ==
            \A x \in DOMAIN r.variants[a] : \A y \in DOMAIN r.variants[b] :
                (r.variants[a][x][1] = r.variants[b][y][1]
                   /\ r.variants[a][x][3] = "W" /\ r.variants[b][y][3] = "W")
                => r.variants[a][x][2] = r.variants[b][y][2]
    IN IF \A a \in DOMAIN r.variants : \A b \in DOMAIN r.variants : agree(a, b) THEN {}
       ELSE IF r.kind = "canon" THEN {"C12.NotCanonical"} ELSE {"C13.NotTransparent"}

Clauses(r) ==
    IF r.kind # "step" THEN GroupClauses(r) ELSE
    IF Lenient(r) # {} THEN C10(r) \cap {"C10.WroteBeforeSave", "C10.TouchedNonManifest"}
    ELSE C10(r) \cup C12(r) \cup C13(r) \cup (IF r.ev.end = "ok" THEN C03(r) ELSE {})

Init == i \in 1..Len(Trace) /\ done = FALSE
Next == /\ ~done /\ done' = TRUE /\ i' = i
        /\ LET r == Trace[i] IN
             /\ \A c \in Clauses(r) : PrintT(<<"V", r.id, c>>)
             /\ (r.kind = "step" => \A z \in Lenient(r) : PrintT(<<"L", r.id, z>>))
             /\ PrintT(<<"K", r.id>>)
Spec == Init /\ [][Next]_vars
=============================================================================
