SPECIFICATION Spec
CONSTANTS
  Own = {"A", "B"}
  Foreign = {"M"}
  MailChoices <- SmallMail
  Ring0Choices <- SmallRing0
  ServePool <- SmallServe
  KsChoices <- SmallKs
  DeleteUnexpected = TRUE
  RequireAll = FALSE
  TrustOnRefresh = FALSE
  SecondLineDeletes = TRUE
  Export = FALSE
INVARIANT C05_OnlyFileKeysTrusted
INVARIANT C05_OnlyFileKeysAccepted
INVARIANT C05_DeliveredRevocationHonoured
INVARIANT X07_NoForeignKeyLeft
INVARIANT X08_OkMeansEveryKeyRefreshed
PROPERTY C05_RevocationSticks
INVARIANT NoStuck
