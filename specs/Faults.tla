------------------------------- MODULE Faults -------------------------------
(***************************************************************************)
(* C06: I/O errors never turn into success or into "absent".               *)
(* An operation (verify, or the scan phase of update) is a sequence of     *)
(* file-system calls, each on an object of some role.  The environment     *)
(* fails exactly one call with an errno other than ENOENT.  Layer A is the *)
(* error-handling table of the implementation (verify.py get_file_metadata,*)
(* os.walk(onerror=raise), load_unregistered_manifests' tolerant loader,   *)
(* compressed-file readers); Layer P: the operation does not report        *)
(* success, and an update has written nothing.                             *)
(* SwallowWalkErrors / EloopMeansAbsent switch in two classic mistakes.    *)
(***************************************************************************)
EXTENDS Naturals, Sequences, FiniteSets, TLC

CONSTANTS SwallowWalkErrors, EloopMeansAbsent

Calls  == {"open", "stat", "fstat", "scandir", "iterate", "read"}
Roles  == {"top_manifest", "sub_manifest", "unregistered_manifest", "directory", "listed_file", "stray_file"}
Errnos == {"EACCES", "EPERM", "EIO", "ENOMEM", "ELOOP", "ENOTDIR", "EMFILE"}
Ops    == {"verify", "update_scan"}

(* which calls are issued on which role *)
Issued(op, role, call) ==
    CASE role \in {"top_manifest", "sub_manifest"} -> call \in {"open", "fstat", "read"}
      [] role = "unregistered_manifest" -> op = "update_scan" /\ call \in {"open", "fstat", "read"}
      [] role = "directory" -> call \in {"scandir", "iterate", "stat"}
      [] role \in {"listed_file", "stray_file"} -> call \in {"open", "fstat", "read"}

(* Layer A: what the implementation does with an OSError(errno) at that call *)
Handle(op, role, call, errno) ==
    IF role = "directory" /\ call \in {"scandir", "iterate"} /\ SwallowWalkErrors THEN "treated_absent"
    ELSE IF role \in {"listed_file", "stray_file"} /\ call = "open" /\ errno = "ELOOP" /\ EloopMeansAbsent
         THEN "treated_absent"
    ELSE "propagates"          \* only FileNotFoundError means absent; everything else is re-raised

(* outcome of the operation given how the error was handled *)
Outcome(op, role, how) ==
    IF how = "propagates" THEN "oserror"
    ELSE \* the object is taken for non-existent
         IF op = "verify" THEN (IF role = "listed_file" THEN "mismatch" ELSE "ok")
         ELSE (IF role = "listed_file" THEN "ok_entry_dropped" ELSE "ok")

VARIABLES op, role, call, errno, out
vars == <<op, role, call, errno, out>>
Init == /\ op \in Ops /\ role \in Roles /\ call \in Calls /\ errno \in Errnos
        /\ Issued(op, role, call) /\ out = "none"
Step == out = "none" /\ out' = Outcome(op, role, Handle(op, role, call, errno)) /\ UNCHANGED <<op, role, call, errno>>
Spec == Init /\ [][Step]_vars

NeverSuccess == out \notin {"ok", "ok_entry_dropped"}
NeverAbsent  == out # "none" => Handle(op, role, call, errno) # "treated_absent"
=============================================================================
