------------------------------- MODULE GpgRef -------------------------------
(***************************************************************************)
(* Layer P for C05: acceptance of an OpenPGP signature from the backend's  *)
(* status keywords and exit status (pure operators).                       *)
(***************************************************************************)
EXTENDS Integers, Sequences, FiniteSets

Trusts == <<"TRUST_UNDEFINED", "TRUST_NEVER", "TRUST_MARGINAL", "TRUST_FULLY", "TRUST_ULTIMATE">>
TrustSet == {Trusts[k] : k \in DOMAIN Trusts}
Vocabulary == {"NEWSIG", "GOODSIG", "BADSIG", "ERRSIG", "EXPSIG", "EXPKEYSIG", "REVKEYSIG", "VALIDSIG",
               "SIG_ID", "KEYEXPIRED", "KEYREVOKED", "NO_PUBKEY", "OTHER"} \cup TrustSet
ExitCodes == {0, 1, 2, 255, -15}      \* incl. a backend killed by a signal (negative in Python)
Accepting == {"TRUST_MARGINAL", "TRUST_FULLY", "TRUST_ULTIMATE"}

Has(sq, w) == \E k \in DOMAIN sq : sq[k] = w

(* ---- Layer P ---- *)
AcceptSig(sq, exit) ==
    /\ exit = 0
    /\ Has(sq, "GOODSIG") /\ Has(sq, "VALIDSIG")
    /\ \E t \in Accepting : Has(sq, t)
    /\ ~Has(sq, "EXPKEYSIG") /\ ~Has(sq, "REVKEYSIG")

(* failure kinds the statement names: expired / revoked key *)
KindAllowed(sq, exit, kind) ==
    IF exit # 0 THEN kind = "verification"
    ELSE IF Has(sq, "EXPKEYSIG") /\ ~Has(sq, "REVKEYSIG") THEN kind = "expired"
    ELSE IF Has(sq, "REVKEYSIG") /\ ~Has(sq, "EXPKEYSIG") THEN kind = "revoked"
    ELSE IF Has(sq, "REVKEYSIG") /\ Has(sq, "EXPKEYSIG") THEN kind \in {"expired", "revoked"}
    ELSE kind \in {"unknown", "untrusted", "verification"}

Raise(sq) ==       \* every trust report replaced by the next higher level
    [k \in DOMAIN sq |->
        IF sq[k] = "TRUST_UNDEFINED" THEN "TRUST_NEVER"
        ELSE IF sq[k] = "TRUST_NEVER" THEN "TRUST_MARGINAL"
        ELSE IF sq[k] = "TRUST_MARGINAL" THEN "TRUST_FULLY"
        ELSE IF sq[k] = "TRUST_FULLY" THEN "TRUST_ULTIMATE" ELSE sq[k]]

=============================================================================
