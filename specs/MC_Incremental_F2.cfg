SPECIFICATION Spec
CONSTANTS
  Files = {"f1", "f2"}
  MaxClock = 7
  TzOffsets <- TzAll
  UtcRead = FALSE
  MaxRounds = 2
  HashSets <- HsOne
  TrustAdopted = FALSE
  ShortcutChecksHashes = TRUE
INVARIANT IncEqualsFull
INVARIANT TimestampNotLate
