SPECIFICATION Spec
CONSTANTS
  MaxLen = 5
  PreambleArmorCheck = TRUE
INVARIANT Conforms
INVARIANT BodyOnly
INVARIANT NoSigEntries
