SPECIFICATION Spec
CONSTANTS
  MaxLen = 5
  NulHeaderCheck = TRUE
  PreambleArmorCheck = TRUE
INVARIANT Conforms
INVARIANT BodyOnly
INVARIANT NoSigEntries
