---------------------------- MODULE HashFileInd ----------------------------
(***************************************************************************)
(* C17, unbounded: the counting argument of HashFile.tla without the       *)
(* bound on the content length.  Content is abstracted to positions: `pos` *)
(* bytes have been consumed from the stream and `nfed` bytes have been fed *)
(* to the hash objects; the k-th byte fed is the k-th byte of the content  *)
(* iff nfed = pos after every step (HashFile.tla checks the sequence       *)
(* version of this for lengths up to MaxLen).  Apalache proves IndInv      *)
(* inductive for ALL lengths, hints, buffer and slurp sizes.               *)
(***************************************************************************)
EXTENDS Integers

CONSTANTS
    \* @type: Int;
    BUF,
    \* @type: Int;
    SLURP,
    \* @type: Bool;
    SlurpCapped

VARIABLES
    \* @type: Int;
    len,
    \* @type: Int;
    hint,
    \* @type: Int;
    pos,
    \* @type: Int;
    nfed,
    \* @type: Str;
    mode,
    \* @type: Bool;
    done

ConstInit == BUF \in 1..1000000 /\ SLURP \in 1..100000000 /\ SlurpCapped = FALSE
\* the mistake "one read of at most SLURP bytes": Apalache must find the step that breaks IndInv
ConstInitCapped == BUF \in 1..1000000 /\ SLURP \in 1..100000000 /\ SlurpCapped = TRUE

Init == /\ len \in Nat /\ hint \in Nat
        /\ pos = 0 /\ nfed = 0 /\ done = FALSE
        /\ mode = IF hint # 0 /\ hint < SLURP THEN "slurp" ELSE "loop"

Slurp ==
    /\ mode = "slurp" /\ ~done
    /\ IF SlurpCapped
       THEN \E n \in 0..SLURP : /\ (n = 0) = (pos = len) /\ n <= len - pos
                                /\ nfed' = nfed + n /\ pos' = pos + n
       ELSE nfed' = nfed + (len - pos) /\ pos' = len       \* read() without a size: everything up to EOF
    /\ done' = TRUE
    /\ UNCHANGED <<len, hint, mode>>

Loop ==
    /\ mode = "loop" /\ ~done
    /\ \E n \in 0..BUF :
          /\ (n = 0) = (pos = len) /\ n <= len - pos       \* short reads allowed, 0 only at EOF
          /\ IF n = 0 THEN done' = TRUE /\ UNCHANGED <<nfed, pos>>
             ELSE nfed' = nfed + n /\ pos' = pos + n /\ UNCHANGED done
    /\ UNCHANGED <<len, hint, mode>>

Next == Slurp \/ Loop

TypeOK == /\ len \in Nat /\ hint \in Nat /\ pos \in Nat /\ nfed \in Nat
          /\ mode \in {"slurp", "loop"} /\ done \in BOOLEAN

IndInv == /\ TypeOK
          /\ nfed = pos                     \* every consumed byte fed exactly once
          /\ pos <= len
          /\ (done => pos = len)            \* nothing dropped: the reported size is the whole length

IndInit == IndInv

SizeOK == done => nfed = len
=============================================================================
