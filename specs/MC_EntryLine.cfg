SPECIFICATION Spec
CONSTANTS
  MaxFields = 4
  EscAbsCheck = TRUE
  DupCheck = TRUE
  RangeCheck = TRUE
INVARIANT Total
INVARIANT Rejects
INVARIANT Accepts
INVARIANT Disjoint
