SPECIFICATION Spec
CONSTANTS
  Files = {"f1", "f2"}
  MaxClock = 6
  TzOffsets <- TzAll
  UtcRead = TRUE
  MaxRounds = 2
  HashSets <- HsOne
  TrustAdopted = FALSE
  ShortcutChecksHashes = TRUE
INVARIANT IncEqualsFull
INVARIANT TimestampNotLate
