SPECIFICATION Spec
CONSTANTS
  MaxFields = 3
  EscAbsCheck = TRUE
  DupCheck = TRUE
  RangeCheck = TRUE
INVARIANT Total
INVARIANT Rejects
INVARIANT Accepts
INVARIANT Disjoint
