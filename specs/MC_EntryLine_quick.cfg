SPECIFICATION Spec
CONSTANTS
  MaxFields = 3
  EscAbsCheck = TRUE
  RangeCheck = TRUE
INVARIANT Total
INVARIANT Rejects
INVARIANT Accepts
INVARIANT Disjoint
