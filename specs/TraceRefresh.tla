---------------------------- MODULE TraceRefresh ----------------------------
(***************************************************************************)
(* Trace validation for the key refresh (Refresh.tla), event by event.     *)
(* One record per real refresh_keys() call on an IsolatedGPGEnvironment:   *)
(*  [id, mail: key -> Seq(address), ring0: key -> status, wkd, req,        *)
(*   serve: address -> [kind, blobs: Seq([k, u])],                         *)
(*   ks: [up, m: key -> [kind, blobs: Seq([k, u])]],                       *)
(*   events: Seq([ev "list"|"fetch"|"import"|"delete"|"refresh", a, k, rc, *)
(*                out, ok: Seq(key)]),   one per gpg invocation / HTTP GET  *)
(*   result "ok"|"RefreshError"|"internal:..",                             *)
(*   ring: key -> status, trust: Seq(key)   (read back with plain gpg),    *)
(*   accept: key -> BOOLEAN  (verify_file of a message signed by the key), *)
(*   cli: [ran, exit, end, left]  the same scenario through `gemato verify *)
(*        -K keyfile` on a tree signed by A; left = entries remaining in   *)
(*        the temporary directory afterwards]                              *)
(*                                                                         *)
(* Step 0 judges what the record alone decides (C05: no key outside the    *)
(* key file is trusted or accepted) and prints K.  Then the events are     *)
(* consumed by the actions of Refresh.tla (steps of the code without a gpg *)
(* call - ticking off an expected IMPORT_OK line, the control decisions -  *)
(* are silent).  A record whose events are all consumed and whose final    *)
(* state is reached prints A ("accepted"); the driver reports records      *)
(* without A as drift `RefreshTraceRejected` (the code no longer follows   *)
(* the modelled protocol: not by itself a violation of C05).               *)
(***************************************************************************)
EXTENDS Refresh, IOUtils

Trace == ndJsonDeserialize(IOEnv.TRACE_FILE)
VARIABLES i, l
tvars == <<vars, i, l>>

SeqSet(q) == { q[j] : j \in DOMAIN q }
R == Trace[i]
Ev == R.events

AnsOf(x) == [kind |-> x.kind, blobs |-> SeqSet(x.blobs)]

TraceInit ==
    /\ i \in 1..Len(Trace) /\ l = 0
    /\ mail = [k \in Keys |-> SeqSet(R.mail[k])]
    /\ ring0 = [k \in Keys |-> R.ring0[k]]
    /\ trust0 = { k \in Keys : R.ring0[k] # "absent" }
    /\ allowWkd = R.wkd /\ haveRequests = R.req
    /\ serve = [a \in UNION { SeqSet(R.mail[k]) : k \in Keys } |-> AnsOf(R.serve[a])]
    /\ ks = [up |-> R.ks.up, m |-> [k \in Keys |-> AnsOf(R.ks.m[k])]]
    /\ ring = ring0 /\ trust = trust0
    /\ pc = "start" /\ want = {} /\ todo = {} /\ data = EmptyBag /\ junk = FALSE
    /\ lines = [k \in Keys |-> 0] /\ seen = {} /\ usedKs = FALSE /\ result = "none"

(* ---- step 0: clauses decided by the record alone ------------------------ *)
RecClauses ==
    (IF \E j \in DOMAIN R.trust : R.ring0[R.trust[j]] = "absent" THEN {"C05.ForeignKeyTrusted"} ELSE {})
    \cup (IF \E k \in Keys : R.accept[k] /\ R.ring0[k] \notin {"valid", "expired"}
          THEN {"C05.ForeignOrRevokedKeyAccepted"} ELSE {})
    \cup (IF R.result \notin {"ok", "RefreshError"} THEN {"X09.RefreshInternalError"} ELSE {})
    \cup (IF R.result = "ok" /\ \E k \in Keys : R.ring0[k] # "absent" /\ R.ring[k] = "absent"
          THEN {"X06.FileKeyDeletedByRefresh"} ELSE {})
    \cup (IF R.result = "ok" /\ \E k \in Keys : R.ring0[k] = "absent" /\ R.ring[k] # "absent"
          THEN {"X07.ForeignKeyLeftInKeyring"} ELSE {})
    \* success without asking the key server, although some key of the file got no IMPORT_OK from the WKD data
    \cup (IF /\ R.result = "ok" /\ \A j \in DOMAIN R.events : R.events[j].ev # "refresh"
             /\ \E k \in Keys : /\ R.ring0[k] # "absent"
                                 /\ \A j \in DOMAIN R.events :
                                       R.events[j].ev = "import" => k \notin SeqSet(R.events[j].ok)
          THEN {"X08.OkWithoutRefreshingEveryKey"} ELSE {})
    \* the command line on a consistent tree signed by A: status 0 only if the refresh succeeded and A's
    \* signature is acceptable afterwards; the isolated home is removed whatever happens
    \cup (IF R.cli.ran /\ R.cli.exit = 0 /\ ~(R.result = "ok" /\ R.accept["A"]) THEN {"C05.CliAcceptsDespiteRefresh"} ELSE {})
    \cup (IF R.cli.ran /\ R.cli.exit # 0 /\ R.result = "ok" /\ R.accept["A"] THEN {"X10.CliRejectsAfterGoodRefresh"} ELSE {})
    \cup (IF R.cli.ran /\ R.cli.end \notin {"ok", "fail"} THEN {"X09.RefreshInternalError"} ELSE {})
    \cup (IF R.cli.ran /\ R.cli.left # 0 THEN {"X11.IsolatedHomeLeftBehind"} ELSE {})

Judge ==
    /\ l = 0 /\ l' = 1
    /\ \A c \in RecClauses : PrintT(<<"V", R.id, c>>)
    /\ PrintT(<<"K", R.id>>)
    /\ UNCHANGED <<vars, i>>

(* ---- the walk ------------------------------------------------------------ *)
IsEv(e) == l >= 1 /\ l <= Len(Ev) /\ Ev[l].ev = e /\ l' = l + 1
Silent == l >= 1 /\ UNCHANGED l
BagOf(q) == [k \in Keys |-> Cardinality({ j \in DOMAIN q : q[j] = k })]

TraceNext ==
    \/ Judge
    \/ /\ UNCHANGED i
       /\ \/ Silent /\ SkipWkd
          \/ IsEv("list") /\ ListKeys
          \/ IsEv("fetch") /\ Fetch(Ev[l].a) /\ ((Ev[l].out = "fail") <=> (serve[Ev[l].a].kind = "fail"))
          \/ /\ IsEv("import") /\ Import
             /\ (Ev[l].rc = 0) <=> (pc' = "check")
             /\ (Ev[l].rc = 0) => (BagOf(Ev[l].ok) = lines')
             /\ (Ev[l].rc # 0) => (ring' = [k \in Keys |-> R.ring[k]])    \* (what a failing import left behind)
          \/ \E k \in Keys : Silent /\ TickOff(k)
          \/ IsEv("delete") /\ Unexpected(Ev[l].k) /\ ((Ev[l].rc = 0) <=> (pc' = "check"))
          \/ Silent /\ CheckDone
          \/ IsEv("refresh") /\ Keyserver /\ ((Ev[l].rc = 0) <=> (result' = "ok"))
          \/ /\ pc = "done" /\ l = Len(Ev) + 1 /\ pc' = "printed" /\ UNCHANGED l
             /\ UNCHANGED <<env, ring, trust, want, todo, data, junk, lines, seen, usedKs, result>>
             /\ PrintT(<<"A", R.id>>)
             /\ (R.result # result => PrintT(<<"D", R.id, "result">>))
             /\ ((\E k \in Keys : R.ring[k] # ring[k]) => PrintT(<<"D", R.id, "ring">>))
             /\ (SeqSet(R.trust) # trust => PrintT(<<"D", R.id, "trust">>))
             /\ ((\E k \in Keys : R.accept[k] # Accept(k)) => PrintT(<<"D", R.id, "accept">>))
             \* a revocation that was delivered and imported, refresh reported success, the key still accepted
             /\ ((result = "ok" /\ R.result = "ok" /\ \E k \in Present(ring0) : Delivered(k) /\ R.accept[k])
                    => PrintT(<<"V", R.id, "C05.DeliveredRevocationIgnored">>))
             /\ TRUE

TraceSpec == TraceInit /\ [][TraceNext]_tvars
=============================================================================
