----------------------------- MODULE TraceHash -----------------------------
(***************************************************************************)
(* Trace validation for C17.                                               *)
(* kind "reads": one hash_file call on a scripted stream:                   *)
(*   [len, hint, reads: Seq(<<kind ("read"|"read1"|"readall"), asked,      *)
(*    returned>>), size_ok, digests_ok (all requested names equal an        *)
(*    independent one-shot digest), names]                                 *)
(* kind "path": get_file_metadata / hash_path on a real file: [len, size_ok,*)
(*    digests_ok]                                                          *)
(* kind "name": [name, supported (by this platform), outcome "digest" |    *)
(*    "unsupported" | "other", matches_reference]                          *)
(***************************************************************************)
EXTENDS Naturals, Sequences, TLC, Json, IOUtils
Trace == ndJsonDeserialize(IOEnv.TRACE_FILE)
VARIABLES i, done
vars == <<i, done>>

RECURSIVE Sum(_)
Sum(sq) == IF sq = <<>> THEN 0 ELSE sq[1][3] + Sum(Tail(sq))

Clauses(r) ==
    IF r.kind = "reads" THEN
        (IF ~r.size_ok THEN {"C17.WrongSize"} ELSE {})
        \cup (IF ~r.digests_ok THEN {"C17.WrongDigest"} ELSE {})
        \cup (IF Sum(r.reads) # r.len THEN {"C17.NotWholeContentRead"} ELSE {})
    ELSE IF r.kind = "path" THEN
        (IF ~r.size_ok THEN {"C17.WrongSize"} ELSE {}) \cup (IF ~r.digests_ok THEN {"C17.WrongDigest"} ELSE {})
    ELSE IF r.kind = "name" THEN
        (IF r.supported /\ r.outcome # "digest" THEN {"C17.SupportedNameRejected"} ELSE {})
        \cup (IF ~r.supported /\ r.outcome # "unsupported" THEN {"C17.UnsupportedNotReported"} ELSE {})
        \cup (IF r.outcome = "digest" /\ ~r.matches_reference THEN {"C17.WrongAlgorithm"} ELSE {})
    ELSE {"C17.UnknownRecord"}

Init == i \in 1..Len(Trace) /\ done = FALSE
Next == /\ ~done /\ done' = TRUE /\ i' = i
        /\ LET r == Trace[i] IN
             /\ \A c \in Clauses(r) : PrintT(<<"V", r.id, c>>)
             /\ PrintT(<<"K", r.id>>)
Spec == Init /\ [][Next]_vars
=============================================================================
