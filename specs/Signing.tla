------------------------------- MODULE Signing -------------------------------
(***************************************************************************)
(* C14: who gets signed when Manifests are saved.                          *)
(* One behaviour = one save_manifests() over a top-level Manifest and its  *)
(* sub-Manifests, for every combination of the sign option, whether the    *)
(* top-level Manifest was loaded with a valid signature, whether the       *)
(* signing key is usable, and whether the top-level file is renamed by     *)
(* (de)compression during this save.  RenameFirst = FALSE reproduces the   *)
(* historical order (the renamed top-level file was written before the     *)
(* loader's notion of "top-level" was updated, hence unsigned: F11).       *)
(***************************************************************************)
EXTENDS Naturals, Sequences, FiniteSets, TLC

CONSTANTS Subs, RenameFirst,
          CheckLineLength     \* TRUE: a line gpg would truncate when signing is refused (F51); FALSE = historical

SignOpts == {"unset", "on", "off"}

VARIABLES signOpt, wasSigned, keyUsable, renameTop,   \* configuration
          signable,           \* no line of the top-level text is longer than gpg signs intact
          topName,            \* what the loader believes the top-level file is called
          files,              \* name -> "signed" | "plain" | "absent"  (on disk)
          queue, pc, outcome
vars == <<signOpt, wasSigned, keyUsable, renameTop, signable, topName, files, queue, pc, outcome>>

Names == {"top", "top2"} \cup Subs          \* "top2": the top-level file under its new name

Want == signOpt = "on" \/ (signOpt = "unset" /\ wasSigned)

Init ==
    /\ signOpt \in SignOpts /\ wasSigned \in BOOLEAN /\ keyUsable \in BOOLEAN /\ renameTop \in BOOLEAN
    /\ signable \in BOOLEAN /\ (wasSigned => signable)      \* (a text with such a line cannot have been loaded as signed)
    /\ topName = "top"
    /\ files = [n \in Names |-> IF n = "top" THEN (IF wasSigned THEN "signed" ELSE "plain")
                                ELSE IF n = "top2" THEN "absent" ELSE "plain"]
    /\ queue \in { q \in [1..Cardinality(Subs) -> Subs] : \A a, b \in DOMAIN q : a # b => q[a] # q[b] }
    /\ pc = "subs" /\ outcome = "running"

(* ManifestFile.dump as called by save_manifest(name) *)
Dump(name) ==
    LET sign == IF name = topName THEN Want ELSE FALSE IN
    IF sign /\ ~keyUsable THEN [ok |-> FALSE, kind |-> "absent"]
    ELSE IF sign /\ ~signable /\ CheckLineLength THEN [ok |-> FALSE, kind |-> "absent"]
    ELSE [ok |-> TRUE, kind |-> IF sign THEN (IF signable THEN "signed" ELSE "garbled") ELSE "plain"]
         \* "garbled": gpg exits 0 but has cut the over-long line: the signed text is not the entries

SaveSub ==      \* sub-Manifests first (deepest directories first)
    /\ pc = "subs" /\ queue # <<>>
    /\ files' = [files EXCEPT ![Head(queue)] = Dump(Head(queue)).kind]
    /\ queue' = Tail(queue)
    /\ UNCHANGED <<signOpt, wasSigned, keyUsable, renameTop, signable, topName, pc, outcome>>

SubsDone == /\ pc = "subs" /\ queue = <<>> /\ pc' = "top"
            /\ UNCHANGED <<signOpt, wasSigned, keyUsable, renameTop, signable, topName, files, queue, outcome>>

SaveTop ==
    /\ pc = "top"
    /\ LET d == Dump("top") IN
       IF ~d.ok THEN /\ outcome' = "signingfailure" /\ pc' = "done" /\ UNCHANGED <<files, topName>>
       ELSE /\ files' = [files EXCEPT !["top"] = d.kind]
            /\ pc' = IF renameTop THEN "rename" ELSE "done"
            /\ outcome' = IF renameTop THEN outcome ELSE "ok"
            /\ UNCHANGED topName
    /\ UNCHANGED <<signOpt, wasSigned, keyUsable, renameTop, signable, queue>>

(* the top-level file changes its name (Manifest.gz -> Manifest): written again under the new  *)
(* name, old file unlinked                                                                     *)
RenameTop ==
    /\ pc = "rename"
    /\ LET nameSeen == IF RenameFirst THEN "top2" ELSE topName      \* what the loader calls top-level
           sign == IF "top2" = nameSeen THEN Want ELSE FALSE
       IN IF sign /\ (~keyUsable \/ (~signable /\ CheckLineLength))
          THEN /\ outcome' = "signingfailure" /\ UNCHANGED files
          ELSE /\ files' = [files EXCEPT !["top2"] = IF sign THEN (IF signable THEN "signed" ELSE "garbled") ELSE "plain",
                                         !["top"] = "absent"]
               /\ outcome' = "ok"
    /\ topName' = "top2" /\ pc' = "done"
    /\ UNCHANGED <<signOpt, wasSigned, keyUsable, renameTop, signable, queue>>

Next == SaveSub \/ SubsDone \/ SaveTop \/ RenameTop
Spec == Init /\ [][Next]_vars

TopFile == IF files["top2"] # "absent" THEN files["top2"] ELSE files["top"]

SignedIffWanted == (pc = "done" /\ outcome = "ok") => ((TopFile = "signed") <=> Want)
SubsNeverSigned == \A n \in Subs : files[n] # "signed"
SignedOverEntries == (pc = "done" /\ outcome = "ok") => TopFile # "garbled"
FailureReported == (pc = "done" /\ Want /\ (~keyUsable \/ ~signable)) => outcome = "signingfailure"
NoSpuriousFailure == (pc = "done" /\ (~Want \/ (keyUsable /\ signable))) => outcome = "ok"
=============================================================================
