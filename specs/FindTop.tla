------------------------------- MODULE FindTop -------------------------------
(***************************************************************************)
(* C15: discovery of the top-level Manifest.                               *)
(* A chain of directory levels 1..N (1 = outermost); level l may hold a    *)
(* Manifest (plain or compressed) with an IGNORE entry that names the      *)
(* start path ("path"), the next directory on the way down to it ("anc"),  *)
(* a sibling ("sib") or a string-prefix look-alike of that directory       *)
(* ("look"); levels up to `cut` are on another device.                     *)
(* Layer A: StepUp transcribes find_top_level_manifest's loop.             *)
(* Layer P: Outermost, declaratively.                                      *)
(***************************************************************************)
EXTENDS FindTopRef, TLC, Json

CONSTANTS N, Export

MfKinds  == {"none", "plain", "gz"}
IgnKinds == {"none", "path", "anc", "sib", "look"}

VARIABLES chain,     \* Seq([mf, ign]) of length N
          cut,       \* levels 1..cut are on another device than the rest (0 = no boundary)
          start, allowC, allowX,
          cur, last, out
vars == <<chain, cut, start, allowC, allowX, cur, last, out>>

Dev(l)        == DevOf(cut, l)
Considered(l) == ConsideredIn(chain, allowC, l)
Covers(l)     == CoversIn(chain, start, l)
Outermost     == OutermostOf(chain, cut, start, allowC, allowX)

(* ---- Layer A ---- *)
Init ==
    /\ chain \in [1..N -> [mf : MfKinds, ign : IgnKinds]]
    /\ cut \in 0..N /\ start \in 1..N /\ allowC \in BOOLEAN /\ allowX \in BOOLEAN
    /\ cur = start /\ last = 0 /\ out = -1

StepUp ==
    /\ out = -1
    /\ IF cur = 0 THEN out' = last /\ UNCHANGED <<cur, last>>              \* reached the root
       ELSE IF Dev(cur) # Dev(start) /\ ~allowX THEN out' = last /\ UNCHANGED <<cur, last>>
       ELSE IF Considered(cur)
            THEN IF Covers(cur) THEN out' = last /\ UNCHANGED <<cur, last>>
                 ELSE last' = cur /\ cur' = cur - 1 /\ UNCHANGED out
            ELSE cur' = cur - 1 /\ UNCHANGED <<last, out>>
    /\ UNCHANGED <<chain, cut, start, allowC, allowX>>

Done == /\ out # -1
        /\ Export => PrintT(ToJson([chain |-> chain, cut |-> cut, start |-> start, allowC |-> allowC,
                                     allowX |-> allowX, out |-> out]))
        /\ UNCHANGED vars

Next == StepUp
Spec == Init /\ [][Next]_vars

Correct == out # -1 => out = Outermost
NeverOtherDevice == (out > 0 /\ ~allowX) => Dev(out) = Dev(start)
NeverCompressedUnasked == (out > 0 /\ ~allowC) => chain[out].mf = "plain"

(* ---- behaviour beyond the listed invariants (growth) ---- *)
FairSpec == Spec /\ WF_vars(Next)
(* the walk ends on every chain (C15 "returns ... or nothing"; also the upward half of C16) *)
Terminates == <>(out # -1)
(* each step either answers or climbs exactly one level; the candidate only moves to the level just left;
   the answer is the candidate; scenario variables are never written *)
StepShape == [][ /\ out = -1
                 /\ \/ (out' # -1 /\ out' = last /\ cur' = cur /\ last' = last)
                    \/ (out' = -1 /\ cur' = cur - 1 /\ last' \in {last, cur})
                 /\ UNCHANGED <<chain, cut, start, allowC, allowX>> ]_vars
(* the candidate is always a considered, uncovered level on the start's side of every boundary crossed,
   and every level between it and the start is uncovered: an inductive strengthening of Correct *)
CandidateSound ==
    last # 0 => /\ last \in (cur + 1)..start
                /\ Considered(last) /\ ~Covers(last)
                /\ (~allowX => Dev(last) = Dev(start))
                /\ \A k \in last..start : ~(Considered(k) /\ Covers(k))
(* nothing ("0") is answered only if no considered level is reachable at all *)
NothingMeansNothing ==
    out = 0 => ~\E l \in 1..start :
                   /\ Considered(l)
                   /\ \A k \in l..start : ~(Considered(k) /\ Covers(k)) /\ (allowX \/ Dev(k) = Dev(start))
(* discovery is insensitive to anything below the start directory *)
BelowStartIrrelevant ==
    out # -1 => \A c2 \in [1..N -> [mf : MfKinds, ign : IgnKinds]] :
                    (\A l \in 1..start : c2[l] = chain[l])
                        => OutermostOf(c2, cut, start, allowC, allowX) = out
=============================================================================
