------------------------------- MODULE FindTop -------------------------------
(***************************************************************************)
(* C15: discovery of the top-level Manifest.                               *)
(* A chain of directory levels 1..N (1 = outermost); level l may hold a    *)
(* Manifest (plain or compressed) with an IGNORE entry that names the      *)
(* start path ("path"), the next directory on the way down to it ("anc"),  *)
(* a sibling ("sib") or a string-prefix look-alike of that directory       *)
(* ("look"); levels up to `cut` are on another device.                     *)
(* Layer A: StepUp transcribes find_top_level_manifest's loop.             *)
(* Layer P: Outermost, declaratively.                                      *)
(***************************************************************************)
EXTENDS FindTopRef, TLC, Json

CONSTANTS N, Export

MfKinds  == {"none", "plain", "gz"}
IgnKinds == {"none", "path", "anc", "sib", "look"}

VARIABLES chain,     \* Seq([mf, ign]) of length N
          cut,       \* levels 1..cut are on another device than the rest (0 = no boundary)
          start, allowC, allowX,
          cur, last, out
vars == <<chain, cut, start, allowC, allowX, cur, last, out>>

Dev(l)        == DevOf(cut, l)
Considered(l) == ConsideredIn(chain, allowC, l)
Covers(l)     == CoversIn(chain, start, l)
Outermost     == OutermostOf(chain, cut, start, allowC, allowX)

(* ---- Layer A ---- *)
Init ==
    /\ chain \in [1..N -> [mf : MfKinds, ign : IgnKinds]]
    /\ cut \in 0..N /\ start \in 1..N /\ allowC \in BOOLEAN /\ allowX \in BOOLEAN
    /\ cur = start /\ last = 0 /\ out = -1

StepUp ==
    /\ out = -1
    /\ IF cur = 0 THEN out' = last /\ UNCHANGED <<cur, last>>              \* reached the root
       ELSE IF Dev(cur) # Dev(start) /\ ~allowX THEN out' = last /\ UNCHANGED <<cur, last>>
       ELSE IF Considered(cur)
            THEN IF Covers(cur) THEN out' = last /\ UNCHANGED <<cur, last>>
                 ELSE last' = cur /\ cur' = cur - 1 /\ UNCHANGED out
            ELSE cur' = cur - 1 /\ UNCHANGED <<last, out>>
    /\ UNCHANGED <<chain, cut, start, allowC, allowX>>

Done == /\ out # -1
        /\ Export => PrintT(ToJson([chain |-> chain, cut |-> cut, start |-> start, allowC |-> allowC,
                                     allowX |-> allowX, out |-> out]))
        /\ UNCHANGED vars

Next == StepUp
Spec == Init /\ [][Next]_vars

Correct == out # -1 => out = Outermost
NeverOtherDevice == (out > 0 /\ ~allowX) => Dev(out) = Dev(start)
NeverCompressedUnasked == (out > 0 /\ ~allowC) => chain[out].mf = "plain"
=============================================================================
