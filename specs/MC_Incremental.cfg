SPECIFICATION Spec
CONSTANTS
  Files = {"f1", "f2"}
  MaxClock = 9
  TzOffsets <- TzAll
  UtcRead = TRUE
  MaxRounds = 2
  HashSets <- HsTwo
  TrustAdopted = FALSE
  ShortcutChecksHashes = TRUE
INVARIANT IncEqualsFull
INVARIANT TimestampNotLate
