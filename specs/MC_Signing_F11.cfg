SPECIFICATION Spec
CONSTANTS
  Subs = {"s1", "s2"}
  RenameFirst = FALSE
INVARIANT SignedIffWanted
INVARIANT SubsNeverSigned
INVARIANT FailureReported
INVARIANT NoSpuriousFailure
