------------------------------- MODULE Refresh -------------------------------
(***************************************************************************)
(* Key refresh of the isolated OpenPGP environment (`gemato verify -K f`   *)
(* without -R; IsolatedGPGEnvironment.refresh_keys).  Layer A: one action  *)
(* per step of the code (one gpg invocation or one HTTP request each).     *)
(*                                                                         *)
(*   refresh_keys(allow_wkd, keyserver):                                   *)
(*     allow_wkd and refresh_keys_wkd()  or  refresh_keys_keyserver()      *)
(*   refresh_keys_wkd():                                                   *)
(*     requests missing -> False;  list_keys(): empty -> False, a key      *)
(*     without a mail address -> False;  GET one URL per address, any      *)
(*     failure -> False (nothing imported);  gpg --import of everything    *)
(*     fetched (non-zero exit -> OpenPGPKeyRefreshError);  per IMPORT_OK   *)
(*     line: an expected fingerprint is ticked off, anything else is       *)
(*     deleted again;  True iff every expected key was ticked off.         *)
(*                                                                         *)
(* The environment is part of the state and fixed in Init: what the WKD    *)
(* server answers per address (failure, empty body, garbage, any set of    *)
(* key blobs - including a foreign key that claims the address), what the  *)
(* key server answers per fingerprint, whether `requests` is importable.   *)
(*                                                                         *)
(* A key blob is [k, u]: key k as the key file has it ("same"), with a     *)
(* revocation ("rev"), or with its expiry extended ("ext").                *)
(*                                                                         *)
(* gpg's own behaviour is an environment model (measured with 2.2.40):     *)
(* import merges (a revocation sticks, a newer self-signature revives an   *)
(* expired key), prints one IMPORT_OK per key block even when unchanged,   *)
(* fails on empty/garbage input, --delete-keys takes the owner trust with   *)
(* the key; --refresh-keys asks the server for every key of the ring, its  *)
(* import screener keeps blocks of any key asked for and makes the exit    *)
(* status non-zero for any other block; a key the server does not have is  *)
(* an error only when no answer held data at all; an empty ring is fine.   *)
(*                                                                         *)
(* Switches (TRUE = the code): DeleteUnexpected, RequireAll;               *)
(* TrustOnRefresh (FALSE = the code; TRUE = WKD data imported through      *)
(* import_key(), i.e. with owner trust).  SecondLineDeletes = TRUE is the  *)
(* code as well: a fingerprint reported twice (two addresses of one key,   *)
(* or one address serving the key twice) is ticked off by its first line   *)
(* and DELETED by the second one (observation X06, DESIGN 19).             *)
(***************************************************************************)
EXTENDS Naturals, Sequences, FiniteSets, TLC, Json

CONSTANTS Own, Foreign,
          MailChoices,     \* set of functions key -> set of addresses
          Ring0Choices,    \* set of functions key -> Status (the key file)
          ServePool,       \* address -> set of answers [kind: "fail"|"empty"|"garbage"|"keys", blobs]
          KsChoices,       \* set of [up: BOOLEAN, m: key -> [kind: "none"|"keys", blobs]]
          DeleteUnexpected, RequireAll, TrustOnRefresh, SecondLineDeletes, Export

Keys == Own \cup Foreign
Status == {"absent", "valid", "expired", "revoked"}
Upd == {"same", "rev", "ext"}
Blobs == [k : Keys, u : Upd]

VARIABLES mail,     \* key -> set of mail addresses among its user IDs
          ring0, trust0,       \* the isolated keyring right after import_key(key file)
          allowWkd, haveRequests,
          serve,    \* address -> [kind, blobs]
          ks,       \* [up, m: key -> [kind, blobs]]
          ring, trust,
          pc, want, todo,
          data,     \* bag of blobs fetched so far: blob -> count
          junk,     \* some fetched body was no OpenPGP data
          lines,    \* IMPORT_OK lines not yet looked at: key -> count
          seen,     \* keys that got an IMPORT_OK line
          usedKs, result
vars == <<mail, ring0, trust0, allowWkd, haveRequests, serve, ks, ring, trust, pc, want, todo, data, junk,
          lines, seen, usedKs, result>>
env == <<mail, ring0, trust0, allowWkd, haveRequests, serve, ks>>

Present(r) == { k \in Keys : r[k] # "absent" }
Addrs(m) == UNION { m[k] : k \in Keys }

Merge(st, u) == IF u = "rev" \/ st = "revoked" THEN "revoked"
                ELSE IF u = "ext" \/ st = "absent" THEN "valid"
                ELSE st
(* all blobs of one import, merged key by key (the order does not matter: Merge is a join) *)
MergeAll(r, bag) ==
    [k \in Keys |->
        LET us == { u \in Upd : bag[[k |-> k, u |-> u]] > 0 } IN
        IF us = {} THEN r[k]
        ELSE IF "rev" \in us \/ r[k] = "revoked" THEN "revoked"
        ELSE IF "ext" \in us \/ r[k] = "absent" THEN "valid"
        ELSE r[k]]
CountFor(bag, k) == bag[[k |-> k, u |-> "same"]] + bag[[k |-> k, u |-> "rev"]] + bag[[k |-> k, u |-> "ext"]]
EmptyBag == [b \in Blobs |-> 0]
Total(bag) == LET S == { b \in Blobs : bag[b] > 0 } IN Cardinality(S)

Init ==
    /\ mail \in MailChoices
    /\ ring0 \in Ring0Choices
    /\ \A k \in Foreign : ring0[k] = "absent"            \* the key file holds own keys only
    /\ Present(ring0) # {}
    /\ trust0 = Present(ring0)                           \* import_key(): owner trust for everything imported
    /\ allowWkd \in BOOLEAN /\ haveRequests \in BOOLEAN
    /\ serve \in { f \in [Addrs(mail) -> UNION { ServePool[a] : a \in Addrs(mail) }] :
                      \A a \in Addrs(mail) : f[a] \in ServePool[a] }
    /\ ks \in KsChoices
    /\ ring = ring0 /\ trust = trust0
    /\ pc = "start" /\ want = {} /\ todo = {} /\ data = EmptyBag /\ junk = FALSE
    /\ lines = [k \in Keys |-> 0] /\ seen = {} /\ usedKs = FALSE /\ result = "none"

(* ---- refresh_keys_wkd ---------------------------------------------------- *)
SkipWkd ==      \* allow_wkd = False, or `requests` cannot be imported
    /\ pc = "start" /\ (~allowWkd \/ ~haveRequests)
    /\ pc' = "ks"
    /\ UNCHANGED <<env, ring, trust, want, todo, data, junk, lines, seen, usedKs, result>>

ListKeys ==     \* gpg --list-keys
    /\ pc = "start" /\ allowWkd /\ haveRequests
    /\ LET p == Present(ring) IN
       IF p = {} \/ \E k \in p : mail[k] = {}
       THEN pc' = "ks" /\ UNCHANGED <<want, todo>>
       ELSE pc' = "fetch" /\ want' = p /\ todo' = UNION { mail[k] : k \in p }
    /\ UNCHANGED <<env, ring, trust, data, junk, lines, seen, usedKs, result>>

Fetch(a) ==     \* requests.get(get_wkd_url(a))
    /\ pc = "fetch" /\ a \in todo
    /\ IF serve[a].kind = "fail"
       THEN pc' = "ks" /\ UNCHANGED <<todo, data, junk>>          \* what was fetched so far is dropped
       ELSE /\ todo' = todo \ {a} /\ pc' = pc
            /\ junk' = (junk \/ serve[a].kind = "garbage")
            /\ data' = IF serve[a].kind # "keys" THEN data
                       ELSE [b \in Blobs |-> data[b] + IF b \in serve[a].blobs THEN 1 ELSE 0]
    /\ UNCHANGED <<env, ring, trust, want, lines, seen, usedKs, result>>

Import ==       \* gpg --import of the concatenated bodies
    /\ pc = "fetch" /\ todo = {}
    /\ IF junk \/ Total(data) = 0
       THEN /\ result' = "RefreshError" /\ pc' = "done"
            \* gpg gives up with a non-zero status, having imported whichever key blocks it could still read
            /\ \E part \in SUBSET { b \in Blobs : data[b] > 0 } :
                   ring' = MergeAll(ring, [b \in Blobs |-> IF b \in part THEN 1 ELSE 0])
            /\ UNCHANGED <<trust, lines, seen>>
       ELSE /\ ring' = MergeAll(ring, data)
            /\ lines' = [k \in Keys |-> CountFor(data, k)]
            /\ seen' = { k \in Keys : CountFor(data, k) > 0 }
            /\ trust' = IF TrustOnRefresh THEN trust \cup { k \in Keys : CountFor(data, k) > 0 } ELSE trust
            /\ pc' = "check" /\ UNCHANGED result
    /\ UNCHANGED <<env, want, todo, data, junk, usedKs>>

TickOff(k) ==   \* IMPORT_OK line of an expected key
    /\ pc = "check" /\ lines[k] > 0 /\ k \in want
    /\ want' = want \ {k}
    /\ lines' = [lines EXCEPT ![k] = @ - 1]
    /\ UNCHANGED <<env, ring, trust, pc, todo, data, junk, seen, usedKs, result>>

Unexpected(k) == \* IMPORT_OK line of anything else: gpg --delete-keys
    /\ pc = "check" /\ lines[k] > 0 /\ k \notin want
    /\ lines' = [lines EXCEPT ![k] = @ - 1]
    /\ LET foreignLine == ring0[k] = "absent"
           doDelete == DeleteUnexpected /\ (foreignLine \/ SecondLineDeletes) IN
       IF ~doDelete THEN UNCHANGED <<ring, pc, result>>
       ELSE IF ring[k] = "absent"                    \* deleted by an earlier line: gpg fails
            THEN result' = "RefreshError" /\ pc' = "done" /\ UNCHANGED ring
            ELSE ring' = [ring EXCEPT ![k] = "absent"] /\ UNCHANGED <<pc, result>>
    /\ trust' = IF ring'[k] = "absent" /\ ring[k] # "absent" THEN trust \ {k} ELSE trust   \* the owner trust goes with the key
    /\ UNCHANGED <<env, want, todo, data, junk, seen, usedKs>>

CheckDone ==
    /\ pc = "check" /\ \A k \in Keys : lines[k] = 0
    /\ IF want = {} \/ ~RequireAll
       THEN result' = "ok" /\ pc' = "done"
       ELSE pc' = "ks" /\ UNCHANGED result
    /\ UNCHANGED <<env, ring, trust, want, todo, data, junk, lines, seen, usedKs>>

(* ---- refresh_keys_keyserver ---------------------------------------------- *)
KsBlobs(k) == IF ~ks.up \/ ks.m[k].kind = "none" THEN {} ELSE ks.m[k].blobs
Keyserver ==    \* gpg --refresh-keys: every key of the ring is asked for in one go
    /\ pc = "ks"
    /\ usedKs' = TRUE
    /\ LET p == Present(ring)
           answered == UNION { KsBlobs(k) : k \in p }
           \* the import screener keeps the blocks of the keys asked for, whichever answer they came in;
           \* a block of any other key makes the exit status non-zero (the rest is imported all the same);
           \* a key the server does not have is no error as long as some answer holds data
           got == [b \in Blobs |-> IF b \in answered /\ b.k \in p THEN 1 ELSE 0]
           bad == ~ks.up \/ answered = {} \/ \E b \in answered : b.k \notin p
       IN /\ ring' = MergeAll(ring, got)
          /\ result' = IF bad /\ p # {} THEN "RefreshError" ELSE "ok"
    /\ pc' = "done"
    /\ UNCHANGED <<env, trust, want, todo, data, junk, lines, seen>>

Done ==
    /\ pc = "done" /\ pc' = "printed"
    /\ Export => PrintT(ToJson([mail |-> mail, ring0 |-> ring0, wkd |-> allowWkd, req |-> haveRequests,
                                 serve |-> serve, ks |-> ks, result |-> result, ring |-> ring,
                                 trust |-> trust, usedks |-> usedKs]))
    /\ UNCHANGED <<env, ring, trust, want, todo, data, junk, lines, seen, usedKs, result>>

Next == SkipWkd \/ ListKeys \/ (\E a \in Addrs(mail) : Fetch(a)) \/ Import
        \/ (\E k \in Keys : TickOff(k) \/ Unexpected(k)) \/ CheckDone \/ Keyserver \/ Done
Spec == Init /\ [][Next]_vars

(* ---- properties ---------------------------------------------------------- *)
Finished == pc \in {"done", "printed"}
(* what a signature check afterwards accepts: C05's "good, valid, trusted, unexpired, unrevoked" *)
Accept(k) == k \in trust /\ ring[k] = "valid"

(* C05: with a key file only its keys count - at every step, not only at the end *)
C05_OnlyFileKeysTrusted == trust \subseteq trust0
C05_OnlyFileKeysAccepted == \A k \in Keys : Accept(k) => (k \in trust0 /\ ring0[k] \in {"valid", "expired"})
(* C05: a revocation that has reached the keyring is never lost again *)
C05_RevocationSticks == [][\A k \in Keys : ring[k] = "revoked" => ring'[k] \in {"revoked", "absent"}]_vars
(* a revocation the servers delivered for a key of the file takes effect whenever refresh succeeds *)
Delivered(k) == \/ (\E a \in Addrs(mail) : serve[a].kind = "keys" /\ [k |-> k, u |-> "rev"] \in serve[a].blobs)
                   /\ k \in seen
                \/ usedKs /\ ring[k] # "absent" /\ \E j \in Keys : ring[j] # "absent" /\ [k |-> k, u |-> "rev"] \in KsBlobs(j)
C05_DeliveredRevocationHonoured ==
    (Finished /\ result = "ok") => \A k \in Present(ring0) : Delivered(k) => ~Accept(k)

(* beyond the listed properties *)
X07_NoForeignKeyLeft == (Finished /\ result = "ok") => Present(ring) \subseteq Present(ring0)
X08_OkMeansEveryKeyRefreshed ==
    (Finished /\ result = "ok" /\ ~usedKs) => Present(ring0) \subseteq seen
X06_FileKeysKept == (Finished /\ result = "ok") => Present(ring0) \subseteq Present(ring)
(* every run ends: no state other than the final one is without a successor *)
NoStuck == pc # "printed" => ENABLED Next
=============================================================================
