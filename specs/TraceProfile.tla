---------------------------- MODULE TraceProfile ----------------------------
(***************************************************************************)
(* Trace validation for C19: one record per `gemato create -p <profile>`   *)
(* on a generated repository.                                              *)
(*  [profile, hashes: Seq (effective expected set), sort (expected),       *)
(*   wm (expected watermark, -1 none), end, s1 (projection after create;   *)
(*   Manifest records carry `sorted`), dirs: Seq([p, role, name]),         *)
(*   fclass: Seq(<<path, class>>) for the files, verify_after]             *)
(***************************************************************************)
EXTENDS UpdateRef, Json, IOUtils

Trace == ndJsonDeserialize(IOEnv.TRACE_FILE)
VARIABLES i, done
vars == <<i, done>>

WantManifest(profile, role) ==
    IF profile = "default" THEN role = "root"
    ELSE role \in {"root", "category", "package", "eclass", "licenses", "profiles", "metadata", "metadata-std",
                   "md5-cache-cat"}
DefaultIgnores(profile, role, name) ==
    IF profile = "default" THEN {}
    ELSE IF role = "root" THEN {"distfiles", "local", "lost+found", "packages"}
    ELSE IF role = "metadata" THEN {"timestamp", "timestamp.chk", "timestamp.commit", "timestamp.x"}
    ELSE IF role = "metadata-std" /\ name \in {"dtd", "glsa", "news", "xml-schema"} THEN {"timestamp.chk", "timestamp.commit"}
    ELSE {}
EntryTag(profile, dirrole, fclass) ==
    IF profile # "old-ebuild" THEN "DATA"
    ELSE IF dirrole = "package" /\ fclass = "ebuild" THEN "EBUILD"
    ELSE IF dirrole = "package" /\ fclass = "metadata.xml" THEN "MISC"
    ELSE IF dirrole \in {"pkgfiles", "pkgfiles-sub"} THEN "AUX"
    ELSE "DATA"

DirSet(r) == SeqSet(r.dirs)
RoleOf(r, p) == (CHOOSE d \in DirSet(r) : d.p = p).role
NameOf(r, p) == (CHOOSE d \in DirSet(r) : d.p = p).name
HasManifest(s, d) == \E m \in MfSet(s) : m.ok /\ m.reg /\ Dir(m.p) = d
MfIn(s, d) == { m \in MfSet(s) : m.ok /\ m.reg /\ Dir(m.p) = d }
ClassOf(r, f) == LET c == { x \in SeqSet(r.fclass) : x[1] = f } IN IF c = {} THEN "other" ELSE (CHOOSE x \in c : TRUE)[2]

(* a later `gemato update -p <profile>` (possibly another profile than the one that created the tree): *)
(* only what the updating profile is responsible for is judged                                         *)
UpdateClauses(r) ==
    IF r.end # "ok" THEN {"C19.UpdateFailed"} ELSE
    LET s == r.s1  W == SeqSet(r.written) IN
    (IF r.profile = "old-ebuild" /\ \E m \in MfSet(s) : m.ok /\ m.reg /\ m.p \in W /\ m.comp # "plain" /\
           \E e \in Ents(m) : e.tag = "EBUILD"
     THEN {"C19.PackageManifestCompressed"} ELSE {})
    \cup (IF \E m \in MfSet(s) : m.p = s.top /\ m.comp # "plain" THEN {"C19.TopCompressed"} ELSE {})
    \cup (IF r.profile = "old-ebuild" /\ \E m \in MfSet(s) : m.ok /\ m.reg /\ \E e \in Ents(m) :
              /\ e.tag \in {"DATA", "EBUILD", "MISC", "AUX"}
              /\ Full(m, e) \in SeqSet(r.newfiles)
              /\ e.tag # EntryTag(r.profile, RoleOf(r, Dir(Full(m, e))), ClassOf(r, Full(m, e)))
           THEN {"C19.WrongEntryType"} ELSE {})
    \cup (IF ~MatchesStrict(s, <<>>) THEN {"C19.NotVerifyingAfterUpdate"} ELSE {})
    \cup (IF r.verify_after # "ok" THEN {"C19.PlainLoaderRejects"} ELSE {})

Clauses(r) ==
    IF r.mode = "update" THEN UpdateClauses(r) ELSE
    IF r.end # "ok" THEN {"C19.CreateFailed"} ELSE
    LET s == r.s1  hs == SeqSet(r.hashes)
        \* with a pre-existing (adopted) Manifest the placement / typing of what was there before is
        \* not the profile's doing: those directories are not judged
        judged == { d \in DirSet(r) : d.role \notin {"ignored-top", "top-plain"}
                                      /\ ~(r.prior /\ d.role \in {"pkgfiles", "pkgfiles-sub"}) }
    IN (IF \E d \in judged : WantManifest(r.profile, d.role) /\ ~HasManifest(s, d.p) THEN {"C19.ManifestMissing"} ELSE {})
       \cup (IF \E d \in judged : ~WantManifest(r.profile, d.role) /\ HasManifest(s, d.p) THEN {"C19.ManifestUnexpected"} ELSE {})
       \cup (IF \E d \in judged : \E m \in MfIn(s, d.p) :
                  { e.p : e \in { x \in Ents(m) : x.tag = "IGNORE" } }
                    # { <<n>> : n \in DefaultIgnores(r.profile, d.role, d.name) }
             THEN {"C19.WrongDefaultIgnores"} ELSE {})
       \cup (IF \E m \in MfSet(s) : m.ok /\ m.reg /\ \E e \in Ents(m) :
                  /\ e.tag \in {"DATA", "EBUILD", "MISC", "AUX"}
                  /\ ~(r.prior /\ RoleOf(r, Dir(Full(m, e))) \in {"pkgfiles", "pkgfiles-sub"})
                  /\ e.tag # EntryTag(r.profile, RoleOf(r, Dir(Full(m, e))), ClassOf(r, Full(m, e)))
             THEN {"C19.WrongEntryType"} ELSE {})
       \cup (IF \E m \in MfSet(s) : m.ok /\ m.reg /\ \E e \in Ents(m) :
                  e.tag \in FileTagSet /\ HashNames(e) # hs
             THEN {"C19.WrongHashSet"} ELSE {})
       \cup (IF r.sort /\ \E m \in MfSet(s) : m.ok /\ m.reg /\ ~m.sorted THEN {"C19.NotSorted"} ELSE {})
       \cup (IF r.wm >= 0 /\ \E m \in MfSet(s) : m.ok /\ m.reg /\ m.p # s.top /\
                  ~(r.profile = "old-ebuild" /\ \E e \in Ents(m) : e.tag = "EBUILD") /\
                  ((m.comp # "plain") # (m.usize >= r.wm))
             THEN {"C19.WrongCompression"} ELSE {})
       \cup (IF r.profile = "old-ebuild" /\ \E m \in MfSet(s) : m.ok /\ m.reg /\ m.comp # "plain" /\
                  \E e \in Ents(m) : e.tag = "EBUILD"
             THEN {"C19.PackageManifestCompressed"} ELSE {})
       \cup (IF \E m \in MfSet(s) : m.p = s.top /\ m.comp # "plain" THEN {"C19.TopCompressed"} ELSE {})
       \cup (IF ~ExactCover(s, <<>>, hs) THEN {"C19.NotExactCover"} ELSE {})
       \cup (IF r.verify_after # "ok" THEN {"C19.PlainLoaderRejects"} ELSE {})

Init == i \in 1..Len(Trace) /\ done = FALSE
Next == /\ ~done /\ done' = TRUE /\ i' = i
        /\ LET r == Trace[i] IN
             /\ \A c \in Clauses(r) : PrintT(<<"V", r.id, c>>)
             /\ PrintT(<<"K", r.id>>)
Spec == Init /\ [][Next]_vars
=============================================================================
