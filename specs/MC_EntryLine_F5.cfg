SPECIFICATION Spec
CONSTANTS
  MaxFields = 2
  EscAbsCheck = TRUE
  DupCheck = TRUE
  RangeCheck = FALSE
INVARIANT Total
INVARIANT Rejects
INVARIANT Accepts
INVARIANT Disjoint
