------------------------------- MODULE WalkRef -------------------------------
(***************************************************************************)
(* Layer P for C16 (pure operators).  A tree walk over directories that    *)
(* follows directory symlinks:                                             *)
(*   dirs:  set of directory ids                                           *)
(*   edges: set of <<from, to>>: `to` is a sub-directory of `from` or the  *)
(*          target of a directory symlink located in `from`, that is not   *)
(*          pruned (hidden or IGNOREd)                                     *)
(*   foreign: directories on another file system                           *)
(* The walk from `start` terminates iff no cycle is reachable; the         *)
(* verifier / updater must then raise the symlink-loop error exactly when  *)
(* one is, and in one-file-system mode the cross-device error exactly when *)
(* a foreign directory is reachable.                                       *)
(***************************************************************************)
EXTENDS Naturals, Sequences, FiniteSets

Succ(edges, n) == { e[2] : e \in { x \in edges : x[1] = n } }

RECURSIVE ReachFix(_, _, _)
ReachFix(edges, S, fuel) ==
    IF fuel = 0 THEN S
    ELSE LET nx == S \cup UNION { Succ(edges, n) : n \in S } IN
         IF nx = S THEN S ELSE ReachFix(edges, nx, fuel - 1)

Reach(dirs, edges, start)  == ReachFix(edges, {start}, Cardinality(dirs))
ReachPlus(dirs, edges, n)  == ReachFix(edges, Succ(edges, n), Cardinality(dirs))

LoopReachable(dirs, edges, start) ==
    \E n \in Reach(dirs, edges, start) : n \in ReachPlus(dirs, edges, n)

ForeignReachable(dirs, edges, start, foreign) ==
    \E n \in Reach(dirs, edges, start) : n \in foreign

(* acceptable outcomes *)
Expected(dirs, edges, start, foreign, onefs) ==
    LET loop == LoopReachable(dirs, edges, start)
        xdev == onefs /\ ForeignReachable(dirs, edges, start, foreign)
    IN (IF loop THEN {"loop"} ELSE {}) \cup (IF xdev THEN {"xdev"} ELSE {})
       \cup (IF ~loop /\ ~xdev THEN {"completes"} ELSE {})
=============================================================================
