SPECIFICATION Spec
CONSTANTS
  N = 4
  Export = FALSE
INVARIANT Correct
INVARIANT NeverOtherDevice
INVARIANT NeverCompressedUnasked
