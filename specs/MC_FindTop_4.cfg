SPECIFICATION FairSpec
CONSTANTS
  N = 4
  Export = FALSE
INVARIANT Correct
INVARIANT NeverOtherDevice
INVARIANT NeverCompressedUnasked
INVARIANT CandidateSound
INVARIANT NothingMeansNothing
PROPERTY Terminates
PROPERTY StepShape
