----------------------------- MODULE Incremental -----------------------------
(***************************************************************************)
(* C11: `gemato update --incremental` against a full update.               *)
(*                                                                         *)
(* Time is counted in half seconds (so that "later in the same second" is  *)
(* expressible); TIMESTAMP has whole-second resolution.  Two replicas of   *)
(* the Manifest are kept over one tree: `inc` is maintained by incremental *)
(* updates, `full` by full updates run at the same moments.  The           *)
(* environment edits files with explicitly chosen mtimes (older than,      *)
(* equal to, newer than the previous TIMESTAMP) and may modify a file      *)
(* between any two per-file steps of a running update.                     *)
(*                                                                         *)
(* UtcRead = FALSE reproduces the historical reading of TIMESTAMP as local *)
(* time (F2): last_mtime is then off by the timezone offset.               *)
(* Each run requests a hash set (HashSets); an entry records the set it    *)
(* was made with.  ShortcutChecksHashes = FALSE reproduces the short-cut   *)
(* that skipped a file without looking at the entry's hash set (F27).      *)
(* A file may also ARRIVE with an old mtime together with an entry for it  *)
(* in a Manifest that is not part of the tree yet (field ad, "adopted"):   *)
(* the entry claims some content, right or wrong (F52).                    *)
(***************************************************************************)
EXTENDS Naturals, Integers, Sequences, FiniteSets, TLC

CONSTANTS Files, MaxClock, TzOffsets, UtcRead, MaxRounds, HashSets, ShortcutChecksHashes,
          TrustAdopted    \* TRUE = historical: the short-cut also trusts entries of a Manifest adopted in this run (F52)
                          \* or edited since its parent recorded it (F53)

Contents == {"a", "b", "c2"}                 \* a, b: equal size; c2: another size
SizeOf(c) == IF c = "c2" THEN 2 ELSE 1
Absent == [c |-> "none", mt |-> 0]

VARIABLES clock,      \* half seconds
          tz,         \* local time = UTC + tz (whole seconds)
          tree,       \* file -> [c, mt] or Absent
          inc, full,  \* file -> [c: recorded content ("none" = no entry), hs: hash set of the entry]
          ts,         \* TIMESTAMP (whole seconds) shared by both replicas, -1 = none yet
          run,        \* the running incremental update: [on, start, last, todo, prevTs]
          dirty,      \* files modified since they were last hashed by an update, with mtime > prevTs rule kept
          excused,    \* files whose latest modification violated the property's precondition
          rounds
vars == <<clock, tz, tree, inc, full, ts, run, dirty, excused, rounds>>

H0 == CHOOSE h \in HashSets : TRUE
NoEntry == [c |-> "none", hs |-> H0, ad |-> FALSE]
Idle == [on |-> FALSE, start |-> 0, last |-> 0, todo |-> {}, prevTs |-> 0, req |-> H0]

Init ==
    /\ clock = 4 /\ tz \in TzOffsets
    /\ tree = [f \in Files |-> [c |-> "a", mt |-> 1]]
    /\ inc = [f \in Files |-> [c |-> "a", hs |-> H0, ad |-> FALSE]]
    /\ full = [f \in Files |-> [c |-> "a", hs |-> H0, ad |-> FALSE]]
    /\ ts = 2                                  \* a full update ran at second 2 (half-second 4)
    /\ run = Idle /\ dirty = {} /\ excused = {} /\ rounds = 0

Tick == /\ clock < MaxClock /\ clock' = clock + 1
        /\ UNCHANGED <<tz, tree, inc, full, ts, run, dirty, excused, rounds>>

(* the environment writes file f with content c and sets its mtime to m     *)
(* (any value up to now: rsync --times, tar, touch -d ...)                   *)
Modify(f, c, m) ==
    /\ m <= clock /\ m >= 0
    /\ tree' = [tree EXCEPT ![f] = [c |-> c, mt |-> m]]
    /\ dirty' = dirty \cup {f}
    \* the property's precondition: a modified file ends up with an mtime later than the
    \* TIMESTAMP the next comparison will use: the current one, or - for a file the running
    \* update has already passed - the one that update is going to write.  Size changes,
    \* additions and deletions are picked up regardless.
    /\ LET ref == IF run.on /\ f \notin run.todo THEN run.start \div 2 ELSE ts IN
       excused' = IF m > ref * 2 \/ c = "none" \/ inc[f].c = "none"
                     \/ SizeOf(c) # SizeOf(inc[f].c)      \* size differs from the recorded entry
                  THEN excused \ {f} ELSE excused \cup {f}
    /\ UNCHANGED <<clock, tz, inc, full, ts, run, rounds>>

EnvModify == \E f \in Files : \E c \in Contents \cup {"none"} : \E m \in {ts * 2 - 1, ts * 2, ts * 2 + 1, clock} :
                 /\ c # tree[f].c
                 /\ Modify(f, c, m)

(* a file arrives (unpacked from an archive, mtime preserved: any time up to now) together with a *)
(* Manifest of its own that claims content `claim` for it                                          *)
Ship(f, c, claim, m) ==
    /\ ~run.on /\ tree[f].c = "none" /\ inc[f].c = "none" /\ full[f].c = "none"
    /\ m <= clock /\ m >= 0
    /\ tree' = [tree EXCEPT ![f] = [c |-> c, mt |-> m]]
    /\ inc' = [inc EXCEPT ![f] = [c |-> claim, hs |-> H0, ad |-> TRUE]]
    /\ full' = [full EXCEPT ![f] = [c |-> claim, hs |-> H0, ad |-> TRUE]]
    /\ dirty' = dirty \cup {f}
    /\ excused' = excused \ {f}                 \* an addition: no precondition on its mtime
    /\ UNCHANGED <<clock, tz, ts, run, rounds>>
EnvShip == \E f \in Files : \E c \in {"a", "b"} : \E claim \in {"a", "b"} : \E m \in {ts * 2 - 1, clock} :
               Ship(f, c, claim, m)

(* the Manifest holding f's entry is edited by hand (reverted to an older revision ...): the entry now  *)
(* claims another content of the same size; the Manifest FILE gets a newer mtime (the property's         *)
(* precondition for a modified file), so the update notices that it no longer matches what its parent   *)
(* records - same flag as for an adopted Manifest (F53)                                                   *)
Revert(f, claim) ==
    /\ ~run.on /\ inc[f].c # "none" /\ claim # inc[f].c /\ SizeOf(claim) = SizeOf(inc[f].c)
    /\ inc' = [inc EXCEPT ![f] = [c |-> claim, hs |-> inc[f].hs, ad |-> TRUE]]
    /\ full' = [full EXCEPT ![f] = [c |-> claim, hs |-> full[f].hs, ad |-> TRUE]]
    /\ dirty' = dirty \cup {f}
    /\ UNCHANGED <<clock, tz, tree, ts, run, excused, rounds>>
EnvRevert == \E f \in Files : \E claim \in {"a", "b"} : Revert(f, claim)

(* ---- the incremental update, one file per step --------------------------- *)
LastMtime(t) == IF UtcRead THEN t * 2 ELSE (t - tz) * 2     \* in half seconds

Start ==
    /\ ~run.on /\ rounds < MaxRounds
    /\ \E h \in HashSets :
         run' = [on |-> TRUE, start |-> clock, last |-> LastMtime(ts), todo |-> Files, prevTs |-> ts, req |-> h]
    /\ rounds' = rounds + 1
    /\ UNCHANGED <<clock, tz, tree, inc, full, ts, dirty, excused>>

HashOne(f) ==
    /\ run.on /\ f \in run.todo
    /\ LET n == tree[f] IN
       IF n.c = "none" THEN inc' = [inc EXCEPT ![f] = NoEntry]           \* vanished: entry dropped
       ELSE IF /\ inc[f].c # "none" /\ n.mt <= run.last /\ SizeOf(n.c) = SizeOf(inc[f].c)
               /\ (ShortcutChecksHashes => inc[f].hs = run.req)
               /\ (TrustAdopted \/ ~inc[f].ad)
            THEN inc' = [inc EXCEPT ![f].ad = FALSE]                       \* skipped (the Manifest is part of the tree now)
            ELSE inc' = [inc EXCEPT ![f] = [c |-> n.c, hs |-> run.req, ad |-> FALSE]]
    /\ full' = [full EXCEPT ![f] = IF tree[f].c = "none" THEN NoEntry     \* the full replica hashes everything
                                   ELSE [c |-> tree[f].c, hs |-> run.req, ad |-> FALSE]]
    /\ run' = [run EXCEPT !.todo = run.todo \ {f}]
    /\ dirty' = dirty \ {f}
    /\ UNCHANGED <<clock, tz, tree, ts, excused, rounds>>

Finish ==
    /\ run.on /\ run.todo = {}
    /\ ts' = run.start \div 2                   \* whole seconds, truncated: never later than the start
    /\ run' = Idle
    /\ UNCHANGED <<clock, tz, tree, inc, full, dirty, excused, rounds>>

Next == Tick \/ EnvModify \/ EnvShip \/ EnvRevert \/ Start \/ (\E f \in Files : HashOne(f)) \/ Finish
Spec == Init /\ [][Next]_vars

(* ---- properties ---------------------------------------------------------- *)
(* (i)+(ii): whenever no update is running and nothing was modified since the last one, the   *)
(* incremental replica equals the full one - for every file whose modifications respected the   *)
(* precondition (mtime later than the TIMESTAMP that was current, or size changed)               *)
IncEqualsFull ==
    (~run.on) => \A f \in Files : (f \notin dirty /\ f \notin excused) => inc[f] = full[f]

(* (iii) *)
TimestampNotLate == run.on => (run.start \div 2) * 2 <= run.start

(* (iv) is IncEqualsFull again: a real write (mtime = now) to a file the running update has     *)
(* already passed is only excused if it happens within the very half second in which the scan    *)
(* started on a whole second (mtime = TIMESTAMP exactly, the lenient case); otherwise the next   *)
(* run must make inc[f] = full[f].                                                                 *)
=============================================================================
