SPECIFICATION Spec
CONSTANTS
  MaxLen = 3
  EscapeSurrogates = TRUE
  ExportTable = TRUE
INVARIANT RoundTrip
INVARIANT NoSeparator
INVARIANT FixedPoint
INVARIANT Storable
