-------------------------- MODULE TraceIncremental --------------------------
(***************************************************************************)
(* Trace validation for C11.  One record per update round run on two       *)
(* copies of one tree (incremental vs full) under one TZ setting:          *)
(*  [id, tz, files: Seq([name, modified, dmt (mtime - previous TIMESTAMP,   *)
(*    milliseconds), stale_before, sizediff (current size # size recorded in the         *)
(*    incremental Manifest), added, deleted, same (entries of the two      *)
(*    replicas equal after the round), true (incremental entry equals the  *)
(*    file's real content)]), dts (new TIMESTAMP - scan start, ms; must be *)
(*    <= 0), ok (both updates completed)]                                  *)
(***************************************************************************)
EXTENDS Integers, Sequences, FiniteSets, TLC, Json, IOUtils

Trace == ndJsonDeserialize(IOEnv.TRACE_FILE)
VARIABLES i, done
vars == <<i, done>>

(* the property's precondition for one file *)
Pre(f) == IF f.modified THEN f.dmt > 0 \/ f.sizediff \/ f.added \/ f.deleted
          ELSE ~f.stale_before \/ f.sizediff \/ f.deleted
(* stale_before: the entry was already stale before this round (an earlier modification   *)
(* violated the precondition and was legitimately skipped) and the file was not touched     *)
(* dmt = 0 exactly is the lenient zone (mtime == TIMESTAMP) *)

Clauses(r) ==
    (IF ~r.ok THEN {"C11.UpdateFailed"} ELSE
     (IF \E k \in DOMAIN r.files : Pre(r.files[k]) /\ ~r.files[k].same THEN {"C11.IncrementalDiffers"} ELSE {})
     \cup (IF \E k \in DOMAIN r.files : Pre(r.files[k]) /\ ~r.files[k].true THEN {"C11.StaleEntry"} ELSE {})
     \cup (IF \E k \in DOMAIN r.files : r.files[k].sizediff /\ ~r.files[k].deleted /\ ~r.files[k].true
           THEN {"C11.SizeChangeSkipped"} ELSE {})
     \cup (IF r.dts > 0 THEN {"C11.TimestampLate"} ELSE {}))

Init == i \in 1..Len(Trace) /\ done = FALSE
Next == /\ ~done /\ done' = TRUE /\ i' = i
        /\ LET r == Trace[i] IN
             /\ \A c \in Clauses(r) : PrintT(<<"V", r.id, c>>)
             /\ PrintT(<<"K", r.id>>)
Spec == Init /\ [][Next]_vars
=============================================================================
