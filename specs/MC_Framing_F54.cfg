SPECIFICATION Spec
CONSTANTS
  MaxLen = 5
  NulHeaderCheck = FALSE
  PreambleArmorCheck = TRUE
INVARIANT Conforms
INVARIANT BodyOnly
INVARIANT NoSigEntries
