SPECIFICATION Spec
