SPECIFICATION Spec
CONSTANTS
  N = 3
  RefreshAbove = FALSE
  DropSelfBelow = TRUE
  DropSelfOnSave = TRUE
  Export = FALSE
INVARIANT C03_ChainExact
INVARIANT C03_Loadable
INVARIANT C12_SecondRunCompletes
INVARIANT C12_Idempotent
INVARIANT C13_Watermark
INVARIANT C18_NoInternal
