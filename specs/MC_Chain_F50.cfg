SPECIFICATION Spec
CONSTANTS
  N = 3
  RefreshAbove = TRUE
  DropSelfBelow = TRUE
  DropSelfOnSave = FALSE
  Export = FALSE
INVARIANT C03_ChainExact
INVARIANT C03_Loadable
INVARIANT C12_SecondRunCompletes
INVARIANT C12_Idempotent
INVARIANT C13_Watermark
INVARIANT C18_NoInternal
