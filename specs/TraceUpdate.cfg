SPECIFICATION Spec
