------------------------------- MODULE Walker -------------------------------
(***************************************************************************)
(* Layer A for C16: the directory walker shared by verification, update    *)
(* and the unregistered-Manifest scan (recursiveloader.py), as a state     *)
(* machine: a stack of pending logical directories, each with the          *)
(* identities of its logical ancestors; a directory whose identity is      *)
(* among its ancestors' raises the loop error; in one-file-system mode a   *)
(* directory on another device raises the cross-device error.              *)
(* Termination is stated as safety: the ancestor list never exceeds the    *)
(* number of directories.  All link graphs over N directories.             *)
(* `beyond`: IGNORE entries for everything that lies beyond a link leading *)
(* back to an ancestor (path of the link + child): the link itself is not   *)
(* ignored, so the loop must be reported all the same.                      *)
(* TopIdentityLost = TRUE reproduces F30: the identity of the start         *)
(* directory is missing from every ancestor list (the walk was started at   *)
(* a path with a trailing slash), so a link back to it is only noticed one  *)
(* level further down - never, if that level is pruned.                     *)
(***************************************************************************)
EXTENDS WalkRef, TLC

CONSTANTS N, TopIdentityLost

Dirs == 1..N
(* a fixed physical tree: 1 is the root, 2 and 3 its children, 4 a child of 2, ... *)
Parent(n) == IF n = 1 THEN 0 ELSE IF n <= 3 THEN 1 ELSE n - 2
TreeEdges == { <<Parent(n), n>> : n \in Dirs \ {1} }

VARIABLES links,      \* set of <<from, to>>: directory symlinks
          ignored,    \* set of edges pruned by IGNORE entries
          foreign, onefs,
          beyond,     \* what lies beyond a loop-closing link is IGNOREd
          stack,      \* Seq(Seq(dir id)): pending logical directories, as ancestor chains ending in the dir
          out
vars == <<links, ignored, foreign, onefs, beyond, stack, out>>

Edges == (TreeEdges \cup links) \ ignored

Init ==
    /\ links \in SUBSET { <<a, b>> : a \in Dirs, b \in Dirs }
    /\ Cardinality(links) <= 3
    /\ ignored \in SUBSET (TreeEdges \cup links) /\ Cardinality(ignored) <= 1
    /\ foreign \in SUBSET (Dirs \ {1}) /\ Cardinality(foreign) <= 1
    /\ onefs \in BOOLEAN /\ beyond \in BOOLEAN
    /\ stack = << <<1>> >> /\ out = "walking"

Step ==
    /\ out = "walking" /\ stack # <<>>
    /\ LET chain == Head(stack)
           d == chain[Len(chain)]
           anc == { chain[k] : k \in (IF TopIdentityLost THEN 2 ELSE 1)..(Len(chain) - 1) }
           \* the children of a directory reached through a loop-closing link are pruned by `beyond`
           closed == \E k \in 1..(Len(chain) - 1) : chain[k] = d
           kids == IF beyond /\ closed THEN {} ELSE Succ(Edges, d)
       IN IF onefs /\ d \in foreign THEN out' = "xdev" /\ UNCHANGED stack
          ELSE IF d \in anc THEN out' = "loop" /\ UNCHANGED stack
          ELSE /\ stack' = [k \in 1..Cardinality(kids) |->
                               chain \o << CHOOSE c \in kids :
                                   Cardinality({ x \in kids : x < c }) = k - 1 >>] \o Tail(stack)
               /\ UNCHANGED out
    /\ UNCHANGED <<links, ignored, foreign, onefs, beyond>>

Finish == /\ out = "walking" /\ stack = <<>> /\ out' = "completes"
          /\ UNCHANGED <<links, ignored, foreign, onefs, beyond, stack>>

Next == Step \/ Finish
Spec == Init /\ [][Next]_vars

Bounded == \A k \in DOMAIN stack : Len(stack[k]) <= N + 1          \* termination, as safety
Correct == out # "walking" => out \in Expected(Dirs, Edges, 1, foreign, onefs)

(* growth: termination as a liveness property under weak fairness (Bounded is its safety shadow), and the
   shape of every step: the verdict is written once, the scenario never *)
FairSpec == Spec /\ WF_vars(Next)
Terminates == <>(out # "walking")
VerdictOnce == [][out = "walking" /\ UNCHANGED <<links, ignored, foreign, onefs, beyond>>]_vars
=============================================================================
