------------------------------ MODULE TraceGpg ------------------------------
(***************************************************************************)
(* Trace validation for C05.                                               *)
(* kind "verify":  [sq: Seq(keyword), exit, obs, signed (what a Manifest   *)
(*     loaded through the same backend reports), obsup (outcome with every *)
(*     trust report raised one level; "" if not run), real (statuses came  *)
(*     from real gpg), state: [key, trust] (for real runs)]                *)
(* kind "levels":  [outcomes: Seq(obs) for owner-trust undefined..ultimate] *)
(* kind "tamper":  [obs, significant]                                      *)
(* kind "cli":     [signer_in_keyfile, flag_s, flag_P, signed_manifest,    *)
(*                  status, user_home_same]                                *)
(* kind "cliopv":  [signer_in_keyfile, files: Seq(good|unsigned|tampered), *)
(*                  status, user_home_same]     (growth: openpgp-verify)   *)
(* kind "cliwrap": [keys_seen_ok, child_rc, status, user_home_same]        *)
(*                                              (growth: gpg-wrap)         *)
(***************************************************************************)
EXTENDS GpgRef, TLC, Json, IOUtils

Trace == ndJsonDeserialize(IOEnv.TRACE_FILE)
VARIABLES i, done
vars == <<i, done>>

(* what this gpg is expected to emit for a key / trust state (environment model) *)
EmitsOK(r) ==
    LET k == r.state.key  t == r.state.trust IN
    CASE k = "valid"   -> Has(r.sq, "GOODSIG") /\ Has(r.sq, "VALIDSIG") /\ Has(r.sq, t)
                          /\ (r.exit = 0 \/ t = "TRUST_NEVER")
      [] k = "expired" -> Has(r.sq, "EXPKEYSIG") /\ ~Has(r.sq, "GOODSIG")
      [] k = "revoked" -> Has(r.sq, "REVKEYSIG") /\ ~Has(r.sq, "GOODSIG")
      [] k = "unknown" -> Has(r.sq, "ERRSIG") /\ Has(r.sq, "NO_PUBKEY") /\ r.exit # 0
      [] k = "badsig"  -> Has(r.sq, "BADSIG") /\ r.exit # 0
      [] OTHER -> TRUE

Clauses(r) ==
    IF r.kind = "verify" THEN
        LET acc == AcceptSig(r.sq, r.exit) IN
        (IF r.obs = "accept" /\ ~acc THEN {"C05.FalseAccept"} ELSE {})
        \cup (IF r.obs # "accept" /\ acc THEN {"C05.FalseReject"} ELSE {})
        \cup (IF r.obs \notin {"accept", "verification", "expired", "revoked", "unknown", "untrusted"}
              THEN {"C05.InternalError"} ELSE {})
        \cup (IF r.obs \in {"verification", "expired", "revoked", "unknown", "untrusted"} /\ ~acc
                 /\ ~KindAllowed(r.sq, r.exit, r.obs) THEN {"C05.WrongFailureKind"} ELSE {})
        \cup (IF r.signed # (r.obs = "accept") THEN {"C05.SignedFlagWrong"} ELSE {})
        \cup (IF r.obs = "accept" /\ r.obsup # "" /\ r.obsup # "accept" THEN {"C05.NotMonotone"} ELSE {})
    ELSE IF r.kind = "levels" THEN
        (IF \E a \in DOMAIN r.outcomes : \E b \in DOMAIN r.outcomes :
                a < b /\ r.outcomes[a] = "accept" /\ r.outcomes[b] # "accept"
         THEN {"C05.NotMonotone"} ELSE {})
        \cup (IF r.outcomes[1] = "accept" \/ r.outcomes[2] = "accept" THEN {"C05.UntrustedAccepted"} ELSE {})
        \cup (IF r.outcomes[3] # "accept" \/ r.outcomes[4] # "accept" \/ r.outcomes[5] # "accept"
              THEN {"C05.TrustedRejected"} ELSE {})
    ELSE IF r.kind = "tamper" THEN
        (IF r.significant /\ r.obs = "accept" THEN {"C05.TamperAccepted"} ELSE {})
    ELSE IF r.kind = "cli" THEN
        LET verified == ~r.flag_P /\ r.signed_manifest /\ r.signer_in_keyfile
            want0 == IF r.flag_P THEN ~r.flag_s
                     ELSE IF r.signed_manifest THEN r.signer_in_keyfile
                     ELSE ~r.flag_s
        IN (IF (r.status = 0) # want0 THEN {IF r.status = 0 THEN "C05.CliFalseAccept" ELSE "C05.CliFalseReject"} ELSE {})
           \cup (IF ~r.user_home_same THEN {"C05.UserKeyringTouched"} ELSE {})
    ELSE IF r.kind = "cliopv" THEN
        \* growth: `gemato openpgp-verify f1 [f2]` exits 0 iff every file carries a good signature by a key
        \* of the key file; the user's keyring is not touched
        LET allgood == r.signer_in_keyfile /\ \A k \in DOMAIN r.files : r.files[k] = "good" IN
        (IF (r.status = 0) # allgood THEN {IF r.status = 0 THEN "C05.CliFalseAccept" ELSE "X04.OpenpgpVerifyFalseReject"} ELSE {})
        \cup (IF r.status \notin {0, 1} THEN {"X04.OpenpgpVerifyStatus"} ELSE {})
        \cup (IF ~r.user_home_same THEN {"C05.UserKeyringTouched"} ELSE {})
    ELSE IF r.kind = "cliwrap" THEN
        \* growth: `gemato gpg-wrap`: the child runs with exactly the keys of the key file, its status is passed on
        (IF ~r.keys_seen_ok THEN {"X05.WrapKeys"} ELSE {})
        \cup (IF r.status # r.child_rc THEN {"X05.WrapStatus"} ELSE {})
        \cup (IF ~r.user_home_same THEN {"C05.UserKeyringTouched"} ELSE {})
    ELSE {"C05.UnknownRecord"}

Drift(r) == IF r.kind = "verify" /\ r.real /\ ~EmitsOK(r) THEN {"gpg-emits-differently"} ELSE {}

Init == i \in 1..Len(Trace) /\ done = FALSE
Next == /\ ~done /\ done' = TRUE /\ i' = i
        /\ LET r == Trace[i] IN
             /\ \A c \in Clauses(r) : PrintT(<<"V", r.id, c>>)
             /\ \A d \in Drift(r) : PrintT(<<"D", r.id, d>>)
             /\ PrintT(<<"K", r.id>>)
Spec == Init /\ [][Next]_vars
=============================================================================
