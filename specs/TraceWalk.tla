------------------------------ MODULE TraceWalk ------------------------------
(***************************************************************************)
(* Trace validation for C16: [dirs: Seq(id), edges: Seq(<<from,to>>) (not  *)
(* pruned), start, foreign: Seq(id), onefs, op, obs]                       *)
(* obs: loop | xdev | completes | timeout | other                          *)
(***************************************************************************)
EXTENDS WalkRef, TLC, Json, IOUtils
Trace == ndJsonDeserialize(IOEnv.TRACE_FILE)
VARIABLES i, done
vars == <<i, done>>
SeqSet(sq) == {sq[k] : k \in DOMAIN sq}

Clauses(r) ==
    LET exp == Expected(SeqSet(r.dirs), SeqSet(r.edges), r.start, SeqSet(r.foreign), r.onefs) IN
    IF r.obs \in exp THEN {}
    ELSE IF r.obs = "timeout" THEN {"C16.NonTermination"}
    ELSE IF r.obs = "loop" THEN {"C16.SpuriousLoop"}
    ELSE IF r.obs = "xdev" THEN {"C16.SpuriousCrossDevice"}
    ELSE IF "loop" \in exp /\ "xdev" \notin exp THEN {"C16.LoopNotRaised"}
    ELSE IF "xdev" \in exp /\ "loop" \notin exp THEN {"C16.CrossDeviceNotRaised"}
    ELSE IF r.obs = "other" THEN {"C16.OtherError"}
    ELSE {"C16.StructuralErrorNotRaised"}

Init == i \in 1..Len(Trace) /\ done = FALSE
Next == /\ ~done /\ done' = TRUE /\ i' = i
        /\ LET r == Trace[i] IN
             /\ \A c \in Clauses(r) : PrintT(<<"V", r.id, c>>)
             /\ PrintT(<<"K", r.id>>)
Spec == Init /\ [][Next]_vars
=============================================================================
