----------------------------- MODULE TraceCodec -----------------------------
(***************************************************************************)
(* Trace validation for C08 (writer/parser are mutual inverses).           *)
(* Records:                                                                *)
(*  kind "interval":  one interval of PathCodec!Table in one context       *)
(*      [lo, hi, c, forms: Seq(form) observed over EVERY code point of it, *)
(*       failures (round trip), sepfail (separator characters left raw),   *)
(*       crashes]                                                          *)
(*  kind "roundtrip": entries written by the real writer and read back     *)
(*      [before, after: Seq(entry), oneline, singlespace, via, err]        *)
(*  kind "fixedpoint": accepted text t: load, dump, load again             *)
(*      [first, second: Seq(entry), err]                                   *)
(*  kind "escape": an escape form over a value range                       *)
(*      [form, lo, hi (decimal strings), expect "char"|"reject", bad]      *)
(* Entries are [tag, path: Seq(code point), size: STRING, ck: Seq(<<n,v>>),*)
(* ts: STRING].                                                            *)
(***************************************************************************)
EXTENDS Naturals, Sequences, FiniteSets, TLC, Json, IOUtils

Trace == ndJsonDeserialize(IOEnv.TRACE_FILE)
VARIABLES i, done
vars == <<i, done>>
SeqSet(sq) == {sq[k] : k \in DOMAIN sq}

Clauses(r) ==
    IF r.kind = "interval" THEN
        (IF SeqSet(r.forms) # {r.c} THEN {"C08.WrongEscapeForm"} ELSE {})
        \cup (IF r.failures # 0 THEN {"C08.RoundTrip"} ELSE {})
        \cup (IF r.sepfail # 0 THEN {"C08.SeparatorInOutput"} ELSE {})
        \cup (IF r.crashes # 0 THEN {"C08.WriterCrash"} ELSE {})
    ELSE IF r.kind = "roundtrip" THEN
        (IF r.err # "" THEN {"C08.WriteReadError"} ELSE
         (IF r.before # r.after THEN {"C08.RoundTrip"} ELSE {})
         \cup (IF ~r.oneline THEN {"C08.NotOneLine"} ELSE {})
         \cup (IF ~r.singlespace THEN {"C08.NotSingleSpace"} ELSE {}))
    ELSE IF r.kind = "fixedpoint" THEN
        (IF r.err # "" THEN {"C08.FixedPointError"} ELSE
         IF r.first # r.second THEN {"C08.FixedPoint"} ELSE {})
    ELSE IF r.kind = "escape" THEN
        (IF r.bad # 0 THEN {IF r.expect = "reject" THEN "C09.EscapeNotRejected" ELSE "C09.EscapeMisdecoded"}
         ELSE {})
    ELSE {"C08.UnknownRecord"}

Init == i \in 1..Len(Trace) /\ done = FALSE
Next == /\ ~done /\ done' = TRUE /\ i' = i
        /\ LET r == Trace[i] IN
             /\ \A c \in Clauses(r) : PrintT(<<"V", r.id, c>>)
             /\ PrintT(<<"K", r.id>>)
Spec == Init /\ [][Next]_vars
=============================================================================
