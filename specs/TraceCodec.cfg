SPECIFICATION Spec
