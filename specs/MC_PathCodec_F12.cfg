SPECIFICATION Spec
CONSTANTS
  MaxLen = 2
  EscapeSurrogates = FALSE
  ExportTable = TRUE
INVARIANT RoundTrip
INVARIANT NoSeparator
INVARIANT FixedPoint
INVARIANT Storable
