SPECIFICATION Spec
