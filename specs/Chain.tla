-------------------------------- MODULE Chain --------------------------------
(***************************************************************************)
(* Layer A for the chain of MANIFEST entries above and below an updated    *)
(* directory: update_entries_for_directory(dir(t)) + save_manifests(), two *)
(* rounds, on a linear chain of N Manifests                                *)
(*    level 1 = Manifest, level 2 = a/Manifest[.gz], level 3 = a/b/...     *)
(* Update.tla has two levels and one round; what needs three levels, a     *)
(* rename and a second round is here: stale references above the updated   *)
(* directory (F37), a Manifest's MANIFEST entry for itself (F46 below, F50 *)
(* above the updated directory), renames by the compression watermark.     *)
(*                                                                         *)
(* A Manifest file is abstracted to (name compressed?, content version).   *)
(* A MANIFEST entry records the (name, version) of its target; it is exact *)
(* iff both are those of the file on disk.                                 *)
(*                                                                         *)
(* Round = Load; Walk (F37 refresh above dir(t), the walk at and below);   *)
(* SaveOne for level N down to 1; Finish.  Round 1 follows an edit in the  *)
(* deepest directory, round 2 runs on the unchanged result.                *)
(* Switches (TRUE = the code): RefreshAbove (F37), DropSelfOnSave (F50),   *)
(* DropSelfBelow (F46; its absence is masked by DropSelfOnSave, so it has  *)
(* a defect configuration only together with that one).                    *)
(***************************************************************************)
EXTENDS Integers, Sequences, FiniteSets, TLC, Json

CONSTANTS N, RefreshAbove, DropSelfBelow, DropSelfOnSave, Export

Levels == 1..N
Sub == 2..N
NoRec == [has |-> FALSE, ver |-> 0, gz |-> FALSE]
Rec(v, g) == [has |-> TRUE, ver |-> v, gz |-> g]

VARIABLES t,          \* the updated directory is the one of level t
          edit,       \* a file of the deepest directory was modified before round 1
          wm,         \* a compression watermark is in force
          big,        \* level -> its Manifest is at least as large as the watermark
          selfFirst,  \* level -> its entry for itself stands before its entry for the level below
          gz, ver,    \* the disk
          ref,        \* level k in Sub -> what level k-1 records about k
          self,       \* level -> its MANIFEST entry for itself (or NoRec)
          init,       \* the prior state (for export)
          round, pc, queue, updated, fixed, renamed, wrote, result
vars == <<t, edit, wm, big, selfFirst, gz, ver, ref, self, init, round, pc, queue, updated, fixed, renamed, wrote, result>>
cfgv == <<t, edit, wm, big, selfFirst, init>>

Exact(k) == ref[k] = Rec(ver[k], gz[k])

Init ==
    /\ t \in Levels /\ wm \in BOOLEAN /\ edit \in BOOLEAN
    /\ big \in [Sub -> BOOLEAN] /\ selfFirst \in [Levels -> BOOLEAN]
    /\ gz \in [Levels -> BOOLEAN] /\ gz[1] = FALSE
    /\ ver = [k \in Levels |-> 0]
    /\ \E stale \in [Sub -> BOOLEAN] : ref = [k \in Sub |-> Rec(IF stale[k] THEN -1 ELSE 0, gz[k])]
    /\ \E hs \in [Levels -> BOOLEAN] : self = [k \in Levels |-> IF hs[k] THEN Rec(-1, gz[k]) ELSE NoRec]
    /\ init = [gz |-> gz, ref |-> ref, self |-> self]
    /\ round = 1 /\ pc = "load" /\ queue = <<>> /\ updated = {} /\ fixed = {} /\ renamed = {}
    /\ wrote = [r \in 1..2 |-> {}] /\ result = [r \in 1..2 |-> "none"]

End(r) == result' = [result EXCEPT ![round] = r]

(* every MANIFEST entry relevant to dir(t) is followed: a recorded name that is not on disk is ENOENT *)
Load ==
    /\ pc = "load"
    /\ IF \/ \E k \in Sub : ref[k].gz # gz[k]
          \/ \E k \in Levels : self[k].has /\ self[k].gz # gz[k]
       THEN End("oserror") /\ pc' = "done"
       ELSE pc' = "walk" /\ UNCHANGED result
    /\ UNCHANGED <<cfgv, gz, ver, ref, self, round, queue, updated, fixed, renamed, wrote>>

(* update_entries_for_directory(dir(t)) *)
Walk ==
    /\ pc = "walk"
    /\ LET \* F37: entries of the governing Manifests (levels <= t) whose target lies strictly above dir(t)
           above(k) == RefreshAbove /\ k < t                       \* target level k
           \* the walk meets the Manifests at and below dir(t): their parents' entries are brought up to date
           met(k) == k >= t
           ref1 == [k \in Sub |-> IF above(k) \/ met(k) THEN Rec(ver[k], gz[k]) ELSE ref[k]]
           self1 == [k \in Levels |->
                        IF ~self[k].has THEN NoRec
                        ELSE IF k >= t /\ DropSelfBelow THEN NoRec            \* de-duplication drops it (F46)
                        ELSE IF k >= t THEN Rec(ver[k], gz[k])                \* historical: "updated" like a file
                        ELSE IF above(k) THEN Rec(ver[k], gz[k]) ELSE self[k]]
           upd == { k - 1 : k \in { j \in Sub : ref1[j] # ref[j] } }          \* the Manifest holding a changed entry
                  \cup { k \in Levels : self1[k] # self[k] }
                  \cup (IF round = 1 /\ edit THEN {N} ELSE {})                 \* the edit: entries of the deepest level
       IN /\ ref' = ref1 /\ self' = self1 /\ updated' = upd
    /\ queue' = [i \in 1..N |-> N + 1 - i]                                     \* deepest first
    /\ fixed' = {} /\ renamed' = {} /\ pc' = "save"
    /\ UNCHANGED <<cfgv, gz, ver, round, wrote, result>>

(* save_manifests: one Manifest per step *)
SaveOne ==
    /\ pc = "save" /\ queue # <<>>
    /\ LET k == Head(queue)
           hasChild == k < N
           childUpd == hasChild /\ (k + 1) \in updated
           \* the loop over the MANIFEST entries of level k, in file order
           updAtSelf == updated \cup (IF childUpd /\ ~selfFirst[k] THEN {k} ELSE {})
           selfRefreshed == ~DropSelfOnSave /\ self[k].has /\ k \in updAtSelf          \* historical (F50)
           upd1 == updated \cup (IF childUpd \/ selfRefreshed THEN {k} ELSE {})
           dirty == k \in upd1
           self1 == IF selfRefreshed THEN Rec(ver[k], gz[k])                           \* the file as it is BEFORE the write
                    ELSE IF dirty /\ DropSelfOnSave THEN NoRec ELSE self[k]
           rename == dirty /\ wm /\ k # 1 /\ gz[k] # big[k]
       IN /\ ref' = IF childUpd THEN [ref EXCEPT ![k + 1] = Rec(ver[k + 1], gz[k + 1])] ELSE ref
          /\ self' = [self EXCEPT ![k] = self1]
          /\ fixed' = fixed \cup (IF childUpd THEN {k + 1} ELSE {}) \cup (IF selfRefreshed THEN {k} ELSE {})
          /\ updated' = upd1
          /\ ver' = IF dirty THEN [ver EXCEPT ![k] = @ + 1] ELSE ver
          /\ gz' = IF rename THEN [gz EXCEPT ![k] = big[k]] ELSE gz
          /\ renamed' = IF rename THEN renamed \cup {k} ELSE renamed
          /\ wrote' = IF dirty THEN [wrote EXCEPT ![round] = @ \cup {k}] ELSE wrote
    /\ queue' = Tail(queue)
    /\ UNCHANGED <<cfgv, round, pc, result>>

Finish ==
    /\ pc = "save" /\ queue = <<>>
    /\ LET left == ((updated \ fixed) \ renamed) \ {1} IN
       End(IF left = {} THEN "ok" ELSE "internal")          \* "Unlinked but updated Manifests"
    /\ pc' = "done"
    /\ UNCHANGED <<cfgv, gz, ver, ref, self, round, queue, updated, fixed, renamed, wrote>>

NextRound ==
    /\ pc = "done" /\ round = 1 /\ result[1] = "ok"
    /\ round' = 2 /\ pc' = "load" /\ updated' = {} /\ fixed' = {} /\ renamed' = {} /\ queue' = <<>>
    /\ UNCHANGED <<cfgv, gz, ver, ref, self, wrote, result>>

Done ==
    /\ pc = "done" /\ (round = 2 \/ result[1] # "ok") /\ pc' = "printed"
    /\ Export => PrintT(ToJson([t |-> t, edit |-> edit, wm |-> wm, big |-> big, selffirst |-> selfFirst, init |-> init,
                                 gz |-> gz, self |-> [k \in Levels |-> self[k].has], wrote2 |-> wrote[2],
                                 result |-> result]))
    /\ UNCHANGED <<cfgv, gz, ver, ref, self, round, queue, updated, fixed, renamed, wrote, result>>

Next == Load \/ Walk \/ SaveOne \/ Finish \/ NextRound \/ Done
Spec == Init /\ [][Next]_vars

(* ---- properties ---------------------------------------------------------- *)
RoundOver(r) == (round > r \/ (round = r /\ pc \in {"done", "printed"})) /\ result[r] = "ok"
(* C03: after a completed update every Manifest on the way to dir(t), and every one below it, is     *)
(* referenced with its true name and content                                                        *)
C03_ChainExact == (RoundOver(1) /\ pc \in {"done", "printed"}) => \A k \in Sub : Exact(k)
(* C03: and the tree can be loaded again: no MANIFEST entry names a file that is not there           *)
C03_Loadable == (pc \in {"done", "printed"} /\ result[1] = "ok") =>
                    \A k \in Levels : self[k].has => self[k].gz = gz[k]
(* C12: a second update of the unchanged tree completes and writes nothing                          *)
C12_SecondRunCompletes == (round = 2 /\ pc \in {"done", "printed"}) => result[2] = "ok"
C12_Idempotent == (round = 2 /\ pc \in {"done", "printed"} /\ result[2] = "ok") => wrote[2] = {}
(* C13: a rewritten sub-Manifest follows the watermark                                                *)
C13_Watermark == (wm /\ pc \in {"done", "printed"} /\ result[1] = "ok") =>
                    \A k \in wrote[1] \ {1} : gz[k] = big[k]
C18_NoInternal == \A r \in 1..2 : result[r] # "internal"
=============================================================================
