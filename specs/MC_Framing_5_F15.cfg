SPECIFICATION Spec
CONSTANTS
  MaxLen = 5
  NulHeaderCheck = TRUE
  PreambleArmorCheck = FALSE
INVARIANT Conforms
INVARIANT BodyOnly
INVARIANT NoSigEntries
