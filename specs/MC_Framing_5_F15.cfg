SPECIFICATION Spec
CONSTANTS
  MaxLen = 5
  PreambleArmorCheck = FALSE
INVARIANT Conforms
INVARIANT BodyOnly
INVARIANT NoSigEntries
