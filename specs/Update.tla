------------------------------- MODULE Update -------------------------------
(***************************************************************************)
(* Layer A: update_entries_for_directory() + save_manifests() as the       *)
(* implementation runs them (recursiveloader.py), step by step:            *)
(*   Load -> ScanUnregistered -> Dedup -> SeedStack -> ScanDir* ->         *)
(*   DropVanished -> SaveOne* -> Finish                                    *)
(* The disk is a Glep74 scenario (variable scn) that the save steps        *)
(* rewrite; the loader's memory is mem / order / updated / stack / edict.  *)
(* One behaviour = one update of `sub` from one PRIOR MANIFEST STATE; the  *)
(* initial states enumerate the prior states C03's quantifier lists.       *)
(* Switches reproduce historical defects: SaveSameDirFirst (F9),           *)
(* SeedAllGoverning (F8), RemoveByIdentity (F14, still present in /repo),  *)
(* QueueKept (F18), ManifestWins (F23), ForgetUnlinked (F20),              *)
(* NoOverwriteOnRename (F34), AdoptListed (F36).                           *)
(***************************************************************************)
EXTENDS UpdateRef, Json, SequencesExt

CONSTANTS SaveSameDirFirst,   \* TRUE: among Manifests of one directory the later loaded is saved first (fixed)
          SeedAllGoverning,   \* TRUE: stack seeded with every governing Manifest (fixed)
          RemoveByIdentity,   \* TRUE: duplicates removed by identity (the repair that cannot be committed)
          QueueKept,          \* TRUE: merging hashes into the kept entry queues ITS Manifest too (fixed, F18)
          ManifestWins,       \* TRUE: a MANIFEST entry survives de-duplication against a plain one (fixed, F23)
          ForgetUnlinked,     \* TRUE: a Manifest whose MANIFEST entry is dropped is forgotten (fixed, F20)
          NoOverwriteOnRename,\* TRUE: a Manifest is not (de)compressed onto an existing file (fixed, F34)
          AdoptListed,        \* TRUE: an adopted Manifest listed as a plain file gets a MANIFEST entry (fixed, F36)
          Export

VARIABLES hreq,       \* requested hash names, sorted (<<"SHA1">> or <<"MD5", "SHA1">>)
          scn,        \* the disk (Glep74 scenario); rewritten by the save steps
          scn0,       \* the prior state, for preservation properties and export
          sub, wm,    \* updated directory; watermark: -1 none, 0 compress all, 1000 compress none
          pc, mem,    \* mem: manifest path -> Seq(entry with field dead)
          order,      \* load order (Seq of manifest paths)
          updated, newmf, stack, edict, walk, fixed, renamed, savequeue, ver, result
vars == <<hreq, scn, scn0, sub, wm, pc, mem, order, updated, newmf, stack, edict, walk, fixed, renamed, savequeue, ver, result>>

(* ---------------------------------------------------------------------- *)
(* helpers on scenarios                                                     *)
VerName(k) == <<"v0", "v1", "v2", "v3", "v4", "v5", "v6", "v7", "v8", "v9">>[k + 1]
MfNode(p, k) == [p |-> p, k |-> "file", h |-> FALSE, cid |-> VerName(k), size |-> 100 + k, mt |-> 900,
                 dev |-> 1, ino |-> 0, loop |-> FALSE, lp |-> p, comp |-> "plain"]
FileNd(p, cid, size) == [p |-> p, k |-> "file", h |-> FALSE, cid |-> cid, size |-> size, mt |-> 50,
                         dev |-> 1, ino |-> 0, loop |-> FALSE, lp |-> p, comp |-> "plain"]
DirNd(p, ino) == [p |-> p, k |-> "dir", h |-> FALSE, cid |-> "", size |-> 0, mt |-> 0, dev |-> 1, ino |-> ino,
                  loop |-> FALSE, lp |-> p, comp |-> "plain"]
En(tag, p, size, ck) == [tag |-> tag, p |-> p, size |-> size, ck |-> ck, odd |-> FALSE, ts |-> "", hx |-> ck]
Mf(p, ents, ok, reg) == [p |-> p, lp |-> p, ok |-> ok, comp |-> "plain", signed |-> FALSE, usize |-> 10 * Len(ents),
                         entries |-> ents, reg |-> reg]
Cat(ss) == FoldLeft(LAMBDA a, b : a \o b, <<>>, ss)
CSize(c) == IF c = "c2" THEN 5 ELSE 3

Top == <<"Manifest">>
DM  == <<"d", "Manifest">>
DX  == <<"d", "Manifest.extra">>
Ok(p, c)    == En("DATA", p, CSize(c), << <<"SHA1", c>> >>)
Ok2(p, c)   == En("DATA", p, CSize(c), << <<"MD5", c>>, <<"SHA1", c>> >>)
MRef(p, k)  == En("MANIFEST", p, 100 + k, << <<"SHA1", VerName(k)>> >>)

(* prior state of the entry for the root file a (content c0) *)
AStates == {"none", "ok", "stalesize", "staledigest", "dupeq", "dupeqstale", "dupsub", "dupsuper", "dupconf", "otherhash"}
AEnts(st) ==
    CASE st = "none" -> <<>>
      [] st = "ok" -> << Ok(<<"a">>, "c0") >>
      [] st = "stalesize" -> << Ok(<<"a">>, "c2") >>
      [] st = "staledigest" -> << Ok(<<"a">>, "c1") >>
      [] st = "dupeq" -> << Ok(<<"a">>, "c0"), Ok(<<"a">>, "c0") >>
      [] st = "dupeqstale" -> << Ok(<<"a">>, "c1"), Ok(<<"a">>, "c1") >>
      [] st = "dupsub" -> << Ok(<<"a">>, "c1"), Ok2(<<"a">>, "c1") >>       \* stale, earlier's hashes subset of later's
      [] st = "dupsuper" -> << Ok2(<<"a">>, "c1"), Ok(<<"a">>, "c1") >>
      [] st = "dupconf" -> << Ok(<<"a">>, "c0"), Ok(<<"a">>, "c1") >>
      [] st = "otherhash" -> << En("DATA", <<"a">>, 3, << <<"MD5", "c0">> >>) >>

(* where the entry for d/x (content c0) lives, and the state of d/Manifest *)
XLocs  == {"none", "top", "dm", "both", "extra"}
DMStates == {"absent", "reg", "regstale", "unreg", "unreginvalid"}

(* further arrangements (one at a time, on top of the above):                                   *)
(*   ignd       top-level `IGNORE d` while d/Manifest is referenced (F20)                         *)
(*   mfdata     d/Manifest also listed as DATA, BEFORE its MANIFEST entry (F23); mfdata2: after   *)
(*   hashsplit  d/x listed in d/Manifest with SHA1 and in the top-level one with MD5, both        *)
(*              requested (F18)                                                                   *)
(*   gzgarbage  a file d/Manifest.gz that is no Manifest, next to the referenced d/Manifest (F34)   *)
(*   dmdata     d/Manifest valid, NOT referenced, but listed as DATA in the top-level Manifest (F36) *)
Extras == {"none", "ignd", "mfdata", "mfdata2", "hashsplit", "gzgarbage", "dmdata"}
DGZ == <<"d", "Manifest.gz">>
MData(p, k) == En("DATA", p, 100 + k, << <<"SHA1", VerName(k)>> >>)

ScenarioX(ast, xloc, xstale, dms, gone, extra) ==
    LET xc == IF xstale THEN "c1" ELSE "c0"
        hasDM == dms # "absent"
        hasDX == xloc = "extra" /\ dms \in {"reg", "regstale"}
        dxEnts == << Ok(<<"x">>, xc) >>
        dmEnts == (IF xloc \in {"dm", "both"} THEN << Ok(<<"x">>, xc) >> ELSE <<>>)
                  \o (IF hasDX THEN << MRef(<<"Manifest.extra">>, 0) >> ELSE <<>>)
        mref == IF dms = "reg" THEN << MRef(<<"d", "Manifest">>, 0) >>
                ELSE IF dms = "regstale" THEN << MRef(<<"d", "Manifest">>, 9) >> ELSE <<>>
        topEnts == AEnts(ast)
                   \o (IF extra = "ignd" THEN << En("IGNORE", <<"d">>, 0, <<>>) >> ELSE <<>>)
                   \o (IF xloc \in {"top", "both"}
                       THEN << IF extra = "hashsplit" THEN En("DATA", <<"d", "x">>, 3, << <<"MD5", xc>> >>)
                               ELSE Ok(<<"d", "x">>, xc) >> ELSE <<>>)
                   \o << Ok(<<"da", "y">>, "c0") >>
                   \o (IF gone THEN << Ok(<<"d", "gone">>, "c0") >> ELSE <<>>)
                   \o (IF extra \in {"mfdata", "dmdata"} THEN << MData(<<"d", "Manifest">>, 0) >> ELSE <<>>)
                   \o mref
                   \o (IF extra = "mfdata2" THEN << MData(<<"d", "Manifest">>, 0) >> ELSE <<>>)
                   \o << En("DIST", <<"dist.tar">>, 7, << <<"SHA1", "jdist">> >>) >>
    IN [ nodes |-> << MfNode(Top, 0), FileNd(<<"a">>, "c0", 3), DirNd(<<"d">>, 11), FileNd(<<"d", "x">>, "c0", 3),
                      DirNd(<<"da">>, 12), FileNd(<<"da", "y">>, "c0", 3) >>
                   \o (IF hasDM THEN << MfNode(DM, 0) >> ELSE <<>>)
                   \o (IF hasDX THEN << MfNode(DX, 0) >> ELSE <<>>)
                   \o (IF extra = "gzgarbage" THEN << FileNd(DGZ, "c2", 5) >> ELSE <<>>),
         mfs |-> << Mf(Top, topEnts, TRUE, TRUE) >>
                 \o (IF hasDM THEN << Mf(DM, IF dms = "unreginvalid" THEN <<>> ELSE dmEnts,
                                         dms # "unreginvalid", dms \in {"reg", "regstale"}) >> ELSE <<>>)
                 \o (IF hasDX THEN << Mf(DX, dxEnts, TRUE, TRUE) >> ELSE <<>>)
                 \o (IF extra = "gzgarbage" THEN << Mf(DGZ, <<>>, FALSE, FALSE) >> ELSE <<>>),
         top |-> Top ]

Scenario(ast, xloc, xstale, dms, gone) == ScenarioX(ast, xloc, xstale, dms, gone, "none")
Scenarios == { Scenario(a, xl, xs, dms, g) :
                 a \in AStates, xl \in XLocs, xs \in BOOLEAN, dms \in DMStates, g \in BOOLEAN }
(* the further arrangements need a referenced d/Manifest (hashsplit: d/x listed in both)          *)
ScenariosX(extra) ==
    { ScenarioX(a, xl, xs, dms, g, extra) :
        a \in {"none", "ok", "dupeq"},
        xl \in (IF extra = "hashsplit" THEN {"both"} ELSE XLocs \ {"extra"}),
        xs \in BOOLEAN, dms \in (IF extra = "dmdata" THEN {"unreg"} ELSE {"reg", "regstale"}), g \in BOOLEAN }

(* ---------------------------------------------------------------------- *)
(* helpers on the loader's memory                                            *)
Alive(mp) == SelectSeq(mem[mp], LAMBDA e : ~e.dead)
Strip(e) == [tag |-> e.tag, p |-> e.p, size |-> e.size, ck |-> e.ck, odd |-> e.odd, ts |-> e.ts, hx |-> e.ck]
WithDead(e) == [tag |-> e.tag, p |-> e.p, size |-> e.size, ck |-> e.ck, odd |-> e.odd, ts |-> e.ts, hx |-> e.ck, dead |-> FALSE]
FullM(mp, e) == Dir(mp) \o e.p
DirLen(mp) == Len(mp) - 1

PosIn(sq, x) == CHOOSE k \in DOMAIN sq : sq[k] = x

(* iteration order of _iter_manifests_for_path: longer directory first; equal directories in   *)
(* load order (historical) or reversed load order (fixed)                                        *)
Before(a, b) ==
    \/ DirLen(a) > DirLen(b)
    \/ DirLen(a) = DirLen(b) /\ (IF SaveSameDirFirst THEN PosIn(order, a) > PosIn(order, b)
                                   ELSE PosIn(order, a) < PosIn(order, b))
SortedMfs(S) == SortSeq(SetToSeq(S), Before)

TrueEntry(e, f) ==     \* update_entry_for_path: size and digests of the file now on disk, requested hashes
    LET n == NodeAt(scn, f) IN [e EXCEPT !.size = n.size, !.ck = [k \in DOMAIN hreq |-> <<hreq[k], n.cid>>],
                                !.hx = [k \in DOMAIN hreq |-> <<hreq[k], n.cid>>]]

Init ==
    /\ \/ scn0 \in Scenarios /\ hreq = <<"SHA1">> /\ sub \in { <<>>, <<"d">> }
       \/ \E x \in {"mfdata", "mfdata2", "gzgarbage", "dmdata"} :
             scn0 \in ScenariosX(x) /\ hreq = <<"SHA1">> /\ sub \in { <<>>, <<"d">> }
       \/ scn0 \in ScenariosX("ignd") /\ hreq = <<"SHA1">> /\ sub = <<>>
       \/ scn0 \in ScenariosX("hashsplit") /\ hreq = <<"MD5", "SHA1">> /\ sub \in { <<>>, <<"d">> }
    /\ scn = scn0
    /\ wm \in {-1, 0, 1000}
    /\ pc = "load" /\ mem = [x \in {} |-> <<>>] /\ order = <<>> /\ updated = {} /\ newmf = {} /\ stack = <<>>
    /\ edict = [x \in {} |-> <<>>] /\ walk = <<>> /\ fixed = {} /\ renamed = [x \in {} |-> <<>>]
    /\ savequeue = <<>> /\ result = "running"
    /\ ver = [mp \in {Top, DM, DX, <<"d", "Manifest.gz">>, <<"d", "Manifest.extra.gz">>} |-> 0]

Fail(r) == result' = r /\ pc' = "done"

(* ---- Load: every Manifest reachable from the top-level one that is relevant to sub, WITHOUT    *)
(* verification (verify_manifests=False); a referenced file that is missing raises               *)
RECURSIVE LoadFix(_, _)
LoadFix(ld, fuel) ==     \* ld: Seq of paths in load order
    IF fuel = 0 THEN ld
    ELSE LET have == SeqSet(ld)
             nw == UNION { { Full(MfAt(scn, mp), e) : e \in { x \in Ents(MfAt(scn, mp)) : x.tag = "MANIFEST" } }
                           : mp \in { q \in have : q \in MfPaths(scn) } }
             nw2 == { f \in nw : f \notin have /\ Relevant(sub, Dir(f)) }
         IN IF nw2 = {} THEN ld ELSE LoadFix(ld \o SetToSeq(nw2), fuel - 1)

Load ==
    /\ pc = "load"
    /\ LET ld == LoadFix(<<Top>>, 4) IN
       IF \E k \in DOMAIN ld : ld[k] \notin MfPaths(scn) THEN Fail("oserror") /\ UNCHANGED <<mem, order>>
       ELSE IF \E k \in DOMAIN ld : ~MfAt(scn, ld[k]).ok THEN Fail("syntax") /\ UNCHANGED <<mem, order>>
       ELSE /\ order' = ld
            /\ mem' = [mp \in SeqSet(ld) |-> [k \in DOMAIN MfAt(scn, mp).entries |-> WithDead(MfAt(scn, mp).entries[k])]]
            /\ pc' = "unreg" /\ UNCHANGED result
    /\ UNCHANGED <<hreq, scn, scn0, sub, wm, updated, newmf, stack, edict, walk, fixed, renamed, savequeue, ver>>

(* ---- load_unregistered_manifests: standard-named files under sub that are not loaded yet       *)
ScanUnregistered ==
    /\ pc = "unreg"
    /\ LET cand == { m.p : m \in { x \in MfSet(scn) : IsPfx(sub, Dir(x.p)) /\ x.p \notin DOMAIN mem
                                                      /\ x.p[Len(x.p)] = "Manifest" } }
           good == { p \in cand : MfAt(scn, p).ok }
       IN /\ mem' = [mp \in DOMAIN mem \cup good |->
                        IF mp \in DOMAIN mem THEN mem[mp]
                        ELSE [k \in DOMAIN MfAt(scn, mp).entries |-> WithDead(MfAt(scn, mp).entries[k])]]
          /\ order' = order \o SetToSeq(good)
          /\ newmf' = good
    /\ pc' = "dedup"
    /\ UNCHANGED <<hreq, scn, scn0, sub, wm, updated, stack, edict, walk, fixed, renamed, savequeue, ver, result>>

(* ---- get_deduplicated_file_entry_dict_for_update                                                *)
(* entries visited Manifest by Manifest (iteration order), each Manifest's entries in file order   *)
EntryList == Cat([ k \in DOMAIN SortedMfs(DOMAIN mem) |->
                     LET mp == SortedMfs(DOMAIN mem)[k] IN
                     SelectSeq([j \in DOMAIN mem[mp] |-> <<mp, j>>],
                               LAMBDA x : mem[x[1]][x[2]].tag \notin {"DIST", "TIMESTAMP"}
                                          /\ IsPfx(sub, FullM(x[1], mem[x[1]][x[2]]))) ])

MergeCk(a, b) ==   \* dict.update: b's values win, a's other names kept; as a name-sorted sequence
    LET names == { a[k][1] : k \in DOMAIN a } \cup { b[k][1] : k \in DOMAIN b }
    IN SortSeq(SetToSeq({ IF \E k \in DOMAIN b : b[k][1] = n
                          THEN b[CHOOSE k \in DOMAIN b : b[k][1] = n]
                          ELSE a[CHOOSE k \in DOMAIN a : a[k][1] = n] : n \in names }),
               LAMBDA x, y : x[1] \in {"MD5"} /\ y[1] \notin {"MD5"})

RECURSIVE DedupFold(_, _, _, _)
DedupFold(lst, m, out, upd) ==   \* -> [m, out, upd, bad]
    IF lst = <<>> THEN [m |-> m, out |-> out, upd |-> upd, bad |-> FALSE]
    ELSE LET x == lst[1]  e == m[x[1]][x[2]]  f == FullM(x[1], e) IN
         IF f \notin DOMAIN out THEN DedupFold(Tail(lst), m, (f :> x) @@ out, upd)
         ELSE LET kx == out[f]  kept == m[kx[1]][kx[2]] IN
              IF ~(kept.tag = e.tag \/ (kept.tag \in CompatTags /\ e.tag \in CompatTags))
              THEN [m |-> m, out |-> out, upd |-> upd, bad |-> TRUE]
              ELSE IF ManifestWins /\ e.tag = "MANIFEST" /\ kept.tag # "MANIFEST"
              THEN \* the MANIFEST entry takes over (union of the hashes, its own values win); the plain
                   \* entry is dropped from ITS Manifest
                   LET e2 == [e EXCEPT !.ck = MergeCk(kept.ck, e.ck), !.hx = MergeCk(kept.ck, e.ck)]
                       m1 == [m EXCEPT ![x[1]][x[2]] = e2]
                       m2 == [m1 EXCEPT ![kx[1]][kx[2]].dead = TRUE]
                   IN DedupFold(Tail(lst), m2, (f :> x) @@ out, upd \cup {x[1], kx[1]})
              ELSE LET kept2 == [kept EXCEPT !.ck = MergeCk(kept.ck, e.ck), !.hx = MergeCk(kept.ck, e.ck)]
                       m1 == [m EXCEPT ![kx[1]][kx[2]] = kept2]
                       \* list.remove(e): the first entry of THAT Manifest comparing equal to e
                       firsteq == CHOOSE j \in DOMAIN m1[x[1]] :
                                     /\ ~m1[x[1]][j].dead /\ Strip(m1[x[1]][j]) = Strip(e)
                                     /\ \A i \in 1..(j - 1) : m1[x[1]][i].dead \/ Strip(m1[x[1]][i]) # Strip(e)
                       victim == IF RemoveByIdentity THEN x[2] ELSE firsteq
                       m2 == [m1 EXCEPT ![x[1]][victim].dead = TRUE]
                   IN DedupFold(Tail(lst), m2, out,
                                upd \cup {x[1]} \cup (IF QueueKept /\ e.tag # "IGNORE" THEN {kx[1]} ELSE {}))

Dedup ==
    /\ pc = "dedup"
    /\ LET r == DedupFold(EntryList, mem, [x \in {} |-> <<>>], updated) IN
       IF r.bad THEN Fail("incompatible") /\ UNCHANGED <<mem, edict, updated>>
       ELSE /\ mem' = r.m /\ edict' = r.out /\ updated' = r.upd /\ pc' = "seed" /\ UNCHANGED result
    /\ UNCHANGED <<hreq, scn, scn0, sub, wm, order, newmf, stack, walk, fixed, renamed, savequeue, ver>>

(* ---- seed the governing-Manifest stack, start the walk                                           *)
Seed ==
    /\ pc = "seed"
    /\ LET gov == SortedMfs({ mp \in DOMAIN mem : IsPfx(Dir(mp), sub) }) IN     \* most specific first
       stack' = IF SeedAllGoverning THEN Reverse(gov) ELSE << gov[1] >>
    /\ walk' = <<sub>> /\ pc' = "scan"
    /\ UNCHANGED <<hreq, scn, scn0, sub, wm, mem, order, updated, newmf, edict, fixed, renamed, savequeue, ver, result>>

(* ---- one directory of the walk                                                                   *)
RECURSIVE PopStack(_, _)
PopStack(st, d) == IF st # <<>> /\ ~IsPfx(Dir(st[Len(st)]), d) THEN PopStack(SubSeq(st, 1, Len(st) - 1), d) ELSE st

FilesIn(d) == { n.p : n \in { c \in ChildrenOf(scn, d) : c.k = "file" /\ ~c.h } }
SubDirs(d) == { n.p : n \in { c \in ChildrenOf(scn, d) : c.k = "dir" /\ ~c.h } }

RECURSIVE ScanFiles(_, _, _, _, _, _)
(* fs: Seq of files still to do; returns [m, ed, upd, st, new (Seq of <<tag, full>>), bad] *)
ScanFiles(fs, m, ed, upd, st, new) ==
    IF fs = <<>> THEN [m |-> m, ed |-> ed, upd |-> upd, st |-> st, new |-> new]
    ELSE LET f == fs[1] IN
         IF f \in DOMAIN ed THEN
            LET x == ed[f]  e0 == m[x[1]][x[2]]
                \* listed as a plain file so far, but just adopted as a Manifest: referenced as one
                e == IF AdoptListed /\ e0.tag \notin {"MANIFEST", "IGNORE"} /\ f \in newmf
                     THEN [e0 EXCEPT !.tag = "MANIFEST"] ELSE e0
                st2 == IF e.tag = "MANIFEST" THEN Append(st, f) ELSE st
                e2 == TrueEntry(e, f)
                ed2 == [g \in DOMAIN ed \ {f} |-> ed[g]]
            IN IF e.tag = "IGNORE" THEN ScanFiles(Tail(fs), m, ed2, upd, st, new)
               ELSE ScanFiles(Tail(fs), [m EXCEPT ![x[1]][x[2]] = e2], ed2,
                              IF Strip(e2) # Strip(e0) THEN upd \cup {x[1]} ELSE upd, st2, new)
         ELSE IF Len(f) = 1 /\ f[1] \in {"Manifest", "Manifest.gz"} THEN ScanFiles(Tail(fs), m, ed, upd, st, new)
         ELSE IF f \in newmf THEN ScanFiles(Tail(fs), m, ed, upd, Append(st, f), Append(new, <<"MANIFEST", f>>))
         ELSE ScanFiles(Tail(fs), m, ed, upd, st, Append(new, <<"DATA", f>>))

(* placing the new entries of one directory *)
RECURSIVE Place(_, _, _, _)
Place(new, m, upd, st) ==     \* -> [m, upd, bad]
    IF new = <<>> THEN [m |-> m, upd |-> upd, bad |-> FALSE]
    ELSE LET tag == new[1][1]  f == new[1][2]
             topi == Len(st)
             \* a MANIFEST entry goes a level up: skip stack elements in the Manifest's own directory
             lvl == IF tag # "MANIFEST" THEN topi
                    ELSE IF \E k \in 1..topi : Dir(st[k]) # Dir(f)
                         THEN CHOOSE k \in 1..topi : Dir(st[k]) # Dir(f) /\ \A j \in (k + 1)..topi : Dir(st[j]) = Dir(f)
                         ELSE 0
         IN IF lvl = 0 THEN [m |-> m, upd |-> upd, bad |-> TRUE]                 \* IndexError (F8)
            ELSE LET mp == st[lvl]
                     rel == SubSeq(f, Len(Dir(mp)) + 1, Len(f))
                     e0 == [tag |-> tag, p |-> rel, size |-> 0, ck |-> <<>>, odd |-> FALSE, ts |-> "", hx |-> <<>>, dead |-> FALSE]
                     e1 == TrueEntry(e0, f)
                 IN Place(Tail(new), [m EXCEPT ![mp] = Append(m[mp], e1)], upd \cup {mp} \cup {st[topi]}, st)

ScanDir ==
    /\ pc = "scan" /\ walk # <<>>
    /\ LET d == Head(walk)
           st0 == PopStack(stack, d)
           \* directories that have an entry: IGNORE prunes, anything else is an error
           badDir == \E s \in SubDirs(d) : s \in DOMAIN edict /\ mem[edict[s][1]][edict[s][2]].tag # "IGNORE"
           desc == { s \in SubDirs(d) : s \notin DOMAIN edict }
       IN IF st0 = <<>> THEN Fail("internal") /\ UNCHANGED <<mem, edict, updated, stack, walk>>
          ELSE IF badDir THEN Fail("invalidpath") /\ UNCHANGED <<mem, edict, updated, stack, walk>>
          ELSE LET r == ScanFiles(SetToSeq(FilesIn(d)), mem, edict, updated, st0, <<>>)
                   pl == Place(r.new, r.m, r.upd, r.st)
               IN IF pl.bad THEN Fail("internal") /\ UNCHANGED <<mem, edict, updated, stack, walk>>
                  ELSE /\ mem' = pl.m /\ edict' = [g \in DOMAIN r.ed \ SubDirs(d) |-> r.ed[g]]
                       /\ updated' = pl.upd /\ stack' = r.st
                       /\ walk' = SetToSeq(desc) \o Tail(walk)
                       /\ UNCHANGED <<pc, result>>
    /\ UNCHANGED <<hreq, scn, scn0, sub, wm, order, newmf, fixed, renamed, savequeue, ver>>

(* ---- entries whose file was not met: removed                                                     *)
DropVanished ==
    /\ pc = "scan" /\ walk = <<>>
    /\ LET gone == { f \in DOMAIN edict : mem[edict[f][1]][edict[f][2]].tag # "IGNORE" }
           \* Manifests whose MANIFEST entry goes: they lie in an ignored (or hidden) directory
           unlinked == IF ForgetUnlinked
                       THEN { f \in gone : mem[edict[f][1]][edict[f][2]].tag = "MANIFEST" } \cap DOMAIN mem
                       ELSE {}
           keep == DOMAIN mem \ unlinked
       IN
       /\ mem' = [mp \in keep |-> [k \in DOMAIN mem[mp] |->
                     IF \E f \in gone : edict[f] = <<mp, k>> THEN [mem[mp][k] EXCEPT !.dead = TRUE] ELSE mem[mp][k]]]
       /\ updated' = (updated \cup { edict[f][1] : f \in gone }) \ unlinked
       /\ savequeue' = SortedMfs(keep)
    /\ pc' = "save"
    /\ UNCHANGED <<hreq, scn, scn0, sub, wm, order, newmf, stack, edict, walk, fixed, renamed, ver, result>>

(* ---- save_manifests: one Manifest per step                                                       *)
GzName(mp) == SubSeq(mp, 1, Len(mp) - 1) \o << IF mp[Len(mp)] = "Manifest" THEN "Manifest.gz" ELSE "Manifest.extra.gz" >>
IsGz(mp) == mp[Len(mp)] \in {"Manifest.gz", "Manifest.extra.gz"}

WriteMf(s, mp, ents, k) ==      \* (re)write Manifest mp with entries ents as version k
    LET rec == [p |-> mp, lp |-> mp, ok |-> TRUE, comp |-> IF IsGz(mp) THEN "gz" ELSE "plain", signed |-> FALSE,
                usize |-> 10 * Len(ents), entries |-> ents, reg |-> TRUE]
        mfs2 == IF mp \in MfPaths(s) THEN [i \in DOMAIN s.mfs |-> IF s.mfs[i].p = mp THEN rec ELSE s.mfs[i]]
                ELSE Append(s.mfs, rec)
        nodes2 == IF HasNode(s, mp) THEN [i \in DOMAIN s.nodes |-> IF s.nodes[i].p = mp THEN MfNode(mp, k) ELSE s.nodes[i]]
                  ELSE Append(s.nodes, MfNode(mp, k))
    IN [s EXCEPT !.mfs = mfs2, !.nodes = nodes2]

RemoveMf(s, mp) ==
    [s EXCEPT !.mfs = SelectSeq(s.mfs, LAMBDA m : m.p # mp), !.nodes = SelectSeq(s.nodes, LAMBDA n : n.p # mp)]

SaveOne ==
    /\ pc = "save" /\ savequeue # <<>>
    /\ LET mp == Head(savequeue)
           \* refresh MANIFEST entries whose target was (or is being) rewritten
           refresh(e) == IF e.tag = "MANIFEST" /\ ~e.dead /\ FullM(mp, e) \in updated
                         THEN LET t0 == FullM(mp, e)
                                  t == IF t0 \in DOMAIN renamed THEN renamed[t0] ELSE t0
                                  e1 == [e EXCEPT !.p = SubSeq(t, Len(Dir(mp)) + 1, Len(t))]
                              IN IF HasNode(scn, t) THEN TrueEntry(e1, t) ELSE e1
                         ELSE e
           ents1 == [k \in DOMAIN mem[mp] |-> refresh(mem[mp][k])]
           targets == { FullM(mp, mem[mp][k]) : k \in { j \in DOMAIN mem[mp] :
                           mem[mp][j].tag = "MANIFEST" /\ ~mem[mp][j].dead /\ FullM(mp, mem[mp][j]) \in updated } }
           dirty == mp \in updated \/ targets # {}
           alive == [k \in DOMAIN SelectSeq(ents1, LAMBDA e : ~e.dead) |-> Strip(SelectSeq(ents1, LAMBDA e : ~e.dead)[k])]
           newver == ver[mp] + 1
           wantgz == wm # -1 /\ mp # Top /\ 10 * Len(alive) >= wm
           np == GzName(mp)
           rename == /\ wm # -1 /\ mp # Top /\ (IsGz(mp) # wantgz) /\ ~IsGz(mp)   \* plain -> gz only in this model
                     /\ (NoOverwriteOnRename => ~HasNode(scn, np))                 \* never onto an existing file
       IN /\ mem' = [mem EXCEPT ![mp] = ents1]
          /\ fixed' = fixed \cup targets
          /\ IF ~dirty THEN UNCHANGED <<scn, ver, renamed, updated>>
             ELSE IF rename
                  THEN /\ scn' = WriteMf(RemoveMf(scn, mp), np, alive, newver)
                       /\ ver' = [ver EXCEPT ![np] = newver]
                       /\ renamed' = (mp :> np) @@ renamed
                       /\ updated' = updated \cup {mp}
                  ELSE /\ scn' = WriteMf(scn, mp, alive, newver)
                       /\ ver' = [ver EXCEPT ![mp] = newver]
                       /\ updated' = updated \cup {mp}
                       /\ UNCHANGED renamed
          /\ savequeue' = Tail(savequeue)
    /\ UNCHANGED <<hreq, scn0, sub, wm, pc, order, newmf, stack, edict, walk, result>>

Finish ==
    /\ pc = "save" /\ savequeue = <<>>
    /\ LET left == (updated \ fixed) \ (DOMAIN renamed \cup {Top}) IN
       result' = IF left = {} THEN "ok" ELSE "internal"          \* "Unlinked but updated Manifests"
    /\ pc' = "done"
    /\ UNCHANGED <<hreq, scn, scn0, sub, wm, mem, order, updated, newmf, stack, edict, walk, fixed, renamed, savequeue, ver>>

(* which Manifest files are part of the tree is decided by reachability from the top-level one  *)
(* (the `reg` field of the prior state is only right for the prior state)                         *)
ReachStep(s, S) == S \cup UNION { { Full(MfAt(s, mp), e) : e \in { x \in Ents(MfAt(s, mp)) : x.tag = "MANIFEST" } }
                                  : mp \in S \cap MfPaths(s) }
Reach(s) == ReachStep(s, ReachStep(s, ReachStep(s, {Top})))
Rereg(s) == [s EXCEPT !.mfs = [i \in DOMAIN s.mfs |-> [s.mfs[i] EXCEPT !.reg = (s.mfs[i].p \in Reach(s))]]]

Done ==
    /\ pc = "done" /\ pc' = "printed"
    /\ Export => PrintT(ToJson([s0 |-> scn0, sub |-> sub, wm |-> wm, hashes |-> hreq, result |-> result, s1 |-> Rereg(scn)]))
    /\ UNCHANGED <<hreq, scn, scn0, sub, wm, mem, order, updated, newmf, stack, edict, walk, fixed, renamed, savequeue, ver, result>>

Next == Load \/ ScanUnregistered \/ Dedup \/ Seed \/ ScanDir \/ DropVanished \/ SaveOne \/ Finish \/ Done
Spec == Init /\ [][Next]_vars

(* ---------------------------------------------------------------------- *)
(* properties (design level)                                                 *)
Completed == pc \in {"done", "printed"} /\ result = "ok"

C03_ExactCover == Completed => ExactCover(Rereg(scn), sub, SeqSet(hreq))
C10_NothingBeforeSave == (pc \in {"load", "unreg", "dedup", "seed", "scan"}) => scn = scn0
C10_FailedWritesNothing == (pc \in {"done", "printed"} /\ result \notin {"ok", "internal"}) => scn = scn0
C10_Preserved ==
    Completed => /\ DistSet(scn0) = DistSet(scn)
                 /\ IgnoreSet(scn0) \subseteq IgnoreSet(scn)
                 /\ OutsideSet(scn0, sub, FALSE) = OutsideSet(scn, sub, FALSE)
                 /\ { n \in NodeSet(scn0) : n.p[Len(n.p)] \notin {"Manifest", "Manifest.gz", "Manifest.extra", "Manifest.extra.gz"} }
                    = { n \in NodeSet(scn) : n.p[Len(n.p)] \notin {"Manifest", "Manifest.gz", "Manifest.extra", "Manifest.extra.gz"} }
(* files that have a Manifest name but are no Manifest belong to the user *)
C10_ForeignKept ==
    Completed => \A n \in NodeSet(scn0) :
        (\E m \in MfSet(scn0) : m.p = n.p /\ ~m.ok) => n \in NodeSet(scn)
C18_NoInternal == result # "internal"
C13_Watermark ==
    Completed /\ wm # -1 =>
        \A m \in MfSet(scn) : (ver[m.p] > 0 /\ m.p # Top) =>
            \/ ((m.comp # "plain") <=> (m.usize >= wm))
            \/ (m.comp = "plain" /\ HasNode(scn0, GzName(m.p)))           \* the compressed name was taken
(* the prior states in which the known finding F14 applies (see DESIGN 17) *)
F14State == \E m \in MfSet(scn0) : \E i \in DOMAIN m.entries : \E j \in DOMAIN m.entries :
               /\ i < j /\ m.entries[i].tag = m.entries[j].tag /\ m.entries[i].p = m.entries[j].p
               /\ m.entries[i].size = m.entries[j].size /\ m.entries[i].tag \in FileTagSet
               /\ HashNames(m.entries[i]) \subseteq HashNames(m.entries[j])
C03_ExactCover_ModuloF14 == (Completed /\ ~F14State) => ExactCover(Rereg(scn), sub, SeqSet(hreq))
=============================================================================
