SPECIFICATION Spec
