---------------------------- MODULE TraceFindTop ----------------------------
(***************************************************************************)
(* Trace validation for C15: [chain, cut, start, allowC, allowX, obs]      *)
(* obs = level of the Manifest the real find_top_level_manifest returned,  *)
(* 0 = nothing, -2 = error / a path outside the chain.                     *)
(***************************************************************************)
EXTENDS FindTopRef, TLC, Json, IOUtils
Trace == ndJsonDeserialize(IOEnv.TRACE_FILE)
VARIABLES i, done
vars == <<i, done>>

Clauses(r) ==
    LET want == OutermostOf(r.chain, r.cut, r.start, r.allowC, r.allowX) IN
    IF r.obs = want THEN {}
    ELSE IF r.obs = -2 THEN {"C15.Error"}
    ELSE IF r.obs = 0 THEN {"C15.NotFound"}
    ELSE IF want = 0 THEN {"C15.FoundUncovered"}
    ELSE IF r.obs < want THEN {"C15.TooFarOut"} ELSE {"C15.NotOutermost"}

Init == i \in 1..Len(Trace) /\ done = FALSE
Next == /\ ~done /\ done' = TRUE /\ i' = i
        /\ LET r == Trace[i] IN
             /\ \A c \in Clauses(r) : PrintT(<<"V", r.id, c>>)
             /\ PrintT(<<"K", r.id>>)
Spec == Init /\ [][Next]_vars
=============================================================================
