----------------------------- MODULE MC_Verify -----------------------------
EXTENDS Verify
NamesQuick    == {"a", "h"}
NamesThorough == {"a", "ab", "h"}
NamesPair     == {"a", "ab"}          \* look-alike pair (string prefix, not path prefix)
LastsNone     == {NoLast}
LastsAll      == {NoLast, 40, 50, 60}
KeepBoth      == {FALSE, TRUE}
KeepOff       == {FALSE}
KeepOn        == {TRUE}
=============================================================================
