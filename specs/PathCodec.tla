------------------------------ MODULE PathCodec ------------------------------
(***************************************************************************)
(* C08 / C09: the path escape codec of Manifest files, over code points.   *)
(*                                                                         *)
(* Table partitions 0..0x10FFFF into intervals with the escape form the    *)
(* writer must use: "lit" (written as is), "x" (\xHH), "u" (\uHHHH),       *)
(* "U" (\UHHHHHHHH).  Everything that the line splitter treats as a        *)
(* separator (Unicode white space), control characters, DEL..C1, the       *)
(* backslash and (EscapeSurrogates) lone surrogates are escaped.           *)
(* Enc / Dec are the codec over sequences of code points; TLC checks the   *)
(* round trip and separator-freeness for all strings over representative   *)
(* code points (every interval edge plus the hex-like letters) up to       *)
(* MaxLen, and that Dec rejects exactly the malformed / out-of-range       *)
(* escapes.  The table is exported and the real codec is run on EVERY code *)
(* point against it.                                                       *)
(***************************************************************************)
EXTENDS Naturals, Sequences, FiniteSets, TLC, Json

CONSTANTS MaxLen, EscapeSurrogates, ExportTable

I(lo, hi, c) == [lo |-> lo, hi |-> hi, c |-> c]
Table == <<
    I(0, 31, "x"), I(32, 32, "x"), I(33, 91, "lit"), I(92, 92, "x"), I(93, 126, "lit"),
    I(127, 127, "x"), I(128, 159, "u"), I(160, 160, "u"), I(161, 5759, "lit"),
    I(5760, 5760, "u"), I(5761, 8191, "lit"), I(8192, 8202, "u"), I(8203, 8231, "lit"),
    I(8232, 8233, "u"), I(8234, 8238, "lit"), I(8239, 8239, "u"), I(8240, 8286, "lit"),
    I(8287, 8287, "u"), I(8288, 12287, "lit"), I(12288, 12288, "u"), I(12289, 55295, "lit"),
    I(55296, 57343, IF EscapeSurrogates THEN "u" ELSE "lit"),
    I(57344, 65535, "lit"), I(65536, 1114111, "lit") >>

MaxCp == 1114111
IsPartition ==
    /\ Table[1].lo = 0 /\ Table[Len(Table)].hi = MaxCp
    /\ \A k \in 1..Len(Table) : Table[k].lo <= Table[k].hi
    /\ \A k \in 1..(Len(Table) - 1) : Table[k + 1].lo = Table[k].hi + 1
ASSUME IsPartition

ClassOf(cp) == Table[CHOOSE k \in 1..Len(Table) : Table[k].lo <= cp /\ cp <= Table[k].hi].c

(* ---- hexadecimal ---- *)
HexDigit(d) == IF d < 10 THEN 48 + d ELSE 55 + d          \* upper case, as the writer emits
RECURSIVE HexN(_, _)
HexN(v, n) == IF n = 0 THEN <<>> ELSE HexN(v \div 16, n - 1) \o <<HexDigit(v % 16)>>
HexVal(c) == IF c >= 48 /\ c <= 57 THEN c - 48
             ELSE IF c >= 65 /\ c <= 70 THEN c - 55
             ELSE IF c >= 97 /\ c <= 102 THEN c - 87 ELSE 99     \* 99: not a hex digit
RECURSIVE ValOf(_)
ValOf(ds) == IF ds = <<>> THEN 0 ELSE ValOf(SubSeq(ds, 1, Len(ds) - 1)) * 16 + HexVal(ds[Len(ds)])
AllHex(ds) == \A k \in DOMAIN ds : HexVal(ds[k]) # 99

(* ---- the codec ---- *)
EncChar(cp) ==
    LET c == ClassOf(cp) IN
    IF c = "lit" THEN <<cp>>
    ELSE IF cp <= 127 THEN <<92, 120>> \o HexN(cp, 2)
    ELSE IF cp <= 65535 THEN <<92, 117>> \o HexN(cp, 4)
    ELSE <<92, 85>> \o HexN(cp, 8)

RECURSIVE Enc(_)
Enc(s) == IF s = <<>> THEN <<>> ELSE EncChar(s[1]) \o Enc(Tail(s))

(* Dec returns [ok, s]; malformed or out-of-range escapes -> ok = FALSE      *)
RECURSIVE Dec(_)
Dec(t) ==
    IF t = <<>> THEN [ok |-> TRUE, s |-> <<>>]
    ELSE IF t[1] # 92 THEN
         LET r == Dec(Tail(t)) IN [ok |-> r.ok, s |-> <<t[1]>> \o r.s]
    ELSE IF Len(t) < 2 THEN [ok |-> FALSE, s |-> <<>>]
    ELSE LET n == IF t[2] = 120 THEN 2 ELSE IF t[2] = 117 THEN 4 ELSE IF t[2] = 85 THEN 8 ELSE 0 IN
         IF n = 0 \/ Len(t) < 2 + n \/ ~AllHex(SubSeq(t, 3, 2 + n)) THEN [ok |-> FALSE, s |-> <<>>]
         ELSE LET hi == IF n = 8 THEN ValOf(SubSeq(t, 3, 6)) ELSE 0
                  lo == IF n = 8 THEN ValOf(SubSeq(t, 7, 10)) ELSE ValOf(SubSeq(t, 3, 2 + n))
              IN IF hi > 16 THEN [ok |-> FALSE, s |-> <<>>]            \* above 0x10FFFF
                 ELSE LET r == Dec(SubSeq(t, 3 + n, Len(t))) IN
                      [ok |-> r.ok, s |-> <<hi * 65536 + lo>> \o r.s]

(* ---- representatives: every interval edge and the hex-like neighbours ---- *)
Edges == UNION { {Table[k].lo, Table[k].hi} : k \in 1..Len(Table) }
HexLike == {48, 57, 65, 70, 97, 102, 71, 120, 117, 85, 47}      \* 0 9 A F a f G x u U /
Reps == Edges \cup HexLike

VARIABLES s, phase
vars == <<s, phase>>
Init == /\ \E n \in 0..MaxLen : s \in [1..n -> Reps]
        /\ phase = "new"
Check == /\ phase = "new" /\ phase' = "done" /\ UNCHANGED s
Spec == Init /\ [][Check]_vars

RoundTrip == LET d == Dec(Enc(s)) IN d.ok /\ d.s = s
NoSeparator == \A k \in DOMAIN Enc(s) : ClassOf(Enc(s)[k]) = "lit" \/ Enc(s)[k] = 92
FixedPoint == LET d == Dec(s) IN d.ok => Dec(Enc(d.s)) = d     \* canonical fixed point
(* what is written must be storable in a UTF-8 text file: lone surrogates are not *)
Utf8Encodable(cp) == cp < 55296 \/ cp > 57343
Storable == \A k \in DOMAIN Enc(s) : Utf8Encodable(Enc(s)[k])

TableExport == ExportTable => PrintT(ToJson(Table))
ASSUME TableExport
=============================================================================
