----------------------------- MODULE FramingRef -----------------------------
(***************************************************************************)
(* Layer P for C04: what a Manifest text means with respect to the OpenPGP *)
(* cleartext signature framework, declaratively, over line classes.       *)
(*                                                                         *)
(*  BS  exactly "-----BEGIN PGP SIGNED MESSAGE-----"                       *)
(*  BG  exactly "-----BEGIN PGP SIGNATURE-----"                            *)
(*  EN  exactly "-----END PGP SIGNATURE-----"                              *)
(*  AR  any other armor-like line ("-----...-----", incl. the three above  *)
(*      with trailing blanks)                                              *)
(*  BL  blank (empty or white space only)                                  *)
(*  HT  armor header / base64 text ("Hash: SHA512", "iQEz...")             *)
(*  EV  a valid Manifest entry                                             *)
(*  DE  a dash-escaped valid entry ("- DATA ...")                          *)
(*  DA  a dash-escaped armor line ("- -----BEGIN PGP SIGNATURE-----")      *)
(*  JK  junk: non-blank, not an entry, not armor                           *)
(*  NL  NUL bytes and white space only: blank for gpg (which drops NUL     *)
(*      with the trailing white space), junk for everybody else (F54)      *)
(*  DB  dash-escaped blank ("- "): blank inside signed text, junk elsewhere *)
(***************************************************************************)
EXTENDS Naturals, Sequences, FiniteSets

Classes   == {"BS", "BG", "EN", "AR", "BL", "HT", "EV", "DE", "DA", "JK", "DB", "NL"}
ArmorLike == {"BS", "BG", "EN", "AR"}

Idx(in)          == 1..Len(in)
FirstAt(in, S, from) ==     \* least index >= from whose class is in S, or 0
    IF \E i \in Idx(in) : i >= from /\ in[i] \in S
    THEN CHOOSE i \in Idx(in) : i >= from /\ in[i] \in S /\ \A j \in from..(i - 1) : in[j] \notin S
    ELSE 0

(* Outcome: [kind, ents, gpg]; kind in plain/signed/syntax/unsigned;        *)
(* ents = indices of the lines that are the entries; gpg = <<from, to>>     *)
Out(kind, ents, gpg) == [kind |-> kind, ents |-> ents, gpg |-> gpg]
Select(in, lo, hi, S) == { i \in lo..hi : in[i] \in S }

(* The set of acceptable outcomes of loading `in`.                          *)
(* A well-formed text has exactly one; a malformed one may be rejected with *)
(* any of the failure kinds that apply to it.                               *)
RefOutcomes(in) ==
    LET n == Len(in)
        b == FirstAt(in, {"BS"}, 1)
    IN IF b = 0
       THEN \* no signed-message header anywhere: plain text
            IF \E i \in Idx(in) : in[i] \in (ArmorLike \cup {"HT", "JK", "DE", "DA", "DB", "NL"})
            THEN { Out("syntax", {}, <<0, 0>>) }
            ELSE { Out("plain", Select(in, 1, n, {"EV"}), <<0, 0>>) }
       ELSE
       LET s == FirstAt(in, {"BL"}, b + 1)                  \* separator after the armor headers
           g == IF s = 0 THEN 0 ELSE FirstAt(in, {"BG"}, s + 1)
           e == IF g = 0 THEN 0 ELSE FirstAt(in, {"EN"}, g + 1)
           truncated == s = 0 \/ g = 0 \/ e = 0
           preArmor  == Select(in, 1, b - 1, ArmorLike) # {}
           preJunk   == Select(in, 1, b - 1, {"HT", "JK", "DE", "DA", "DB", "NL"}) # {}
           preEntry  == Select(in, 1, b - 1, {"EV"}) # {}
           hdrArmor  == s # 0 /\ Select(in, b + 1, s - 1, ArmorLike \cup {"NL"}) # {}
           bodyBad   == g # 0 /\ Select(in, s + 1, g - 1, {"BS", "EN", "AR", "DA", "HT", "JK", "NL"}) # {}
           sigArmor  == e # 0 /\ Select(in, g + 1, e - 1, {"BS", "BG", "AR"}) # {}
           postArmor == e # 0 /\ Select(in, e + 1, n, ArmorLike) # {}
           postData  == e # 0 /\ Select(in, e + 1, n, {"HT", "EV", "DE", "DA", "JK", "DB", "NL"}) # {}
           syntaxApplies == truncated \/ preArmor \/ preJunk \/ hdrArmor \/ bodyBad \/ sigArmor
                            \/ postArmor
           unsignedApplies == preEntry \/ preJunk \/ postData
       IN IF ~syntaxApplies /\ ~unsignedApplies
          THEN { Out("signed", Select(in, s + 1, g - 1, {"EV", "DE"}), <<b, e>>) }
          ELSE (IF syntaxApplies THEN { Out("syntax", {}, <<0, 0>>) } ELSE {})
               \cup (IF unsignedApplies THEN { Out("unsigned", {}, <<0, 0>>) } ELSE {})

(* invariants every outcome must satisfy whatever the input (C04's "never") *)
NothingOutsideBody(in, o) ==
    o.kind = "signed" =>
        /\ \A i \in o.ents : o.gpg[1] < i /\ i < o.gpg[2] /\ in[i] \in {"EV", "DE"}
        /\ in[o.gpg[1]] = "BS" /\ in[o.gpg[2]] = "EN"
=============================================================================
