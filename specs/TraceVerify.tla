----------------------------- MODULE TraceVerify -----------------------------
(***************************************************************************)
(* Trace validation of verification / lookup steps recorded from the real  *)
(* code (C01, C02, C07, C13-transparency, C16 outcome).                    *)
(* One record per step:  [id, s (scenario, see Glep74), ev].               *)
(* ev = [a, api, sub, last, keep, end, exc, ret, reported, res]            *)
(*   a    "verify" | "lookup"                                              *)
(*   end  "ok" | "fail" (library exception exc) | "oserror" | "internal"   *)
(*   reported  Seq(<<path, "F"|"T"|"N">>) handler invocations              *)
(*   res  for lookups: <<>> (nothing) or <<[tag,p(full),size,ck]>>;        *)
(*        for verify_path: ret is the boolean                              *)
(* Verdicts are total: every record prints <<"K", id>>; every failing      *)
(* clause prints <<"V", id, clause>>; lenient zones print <<"L", id, zone>> *)
(***************************************************************************)
EXTENDS Glep74, Json, IOUtils

Trace == ndJsonDeserialize(IOEnv.TRACE_FILE)

VARIABLES i, done
vars == <<i, done>>

(* ---------------- directory verification ------------------------------- *)
VerifyLenient(s, sub, acc, FE) ==
    (IF OddPaths(s) THEN {"OddPath"} ELSE {})
    \cup (IF SubIgnored(s, sub, acc) THEN {"SubIgnored"} ELSE {})
    \cup (IF SubNotDir(s, sub) THEN {"SubNotDir"} ELSE {})

StructOK(s, sub, acc, FE, V) ==
    /\ acc # {} /\ AllParsable(s, acc) /\ ~ChainBroken(s, sub, acc)
    /\ AllCompatible(FE) /\ ~LoopHit(s, V)

VerifyClauses(s, ev) ==
    LET sub == ev.sub
        acc == Accepted(s, sub)
        FE  == FileEnts(s, sub, acc)
        V   == Visited(s, FE, sub)
        len == VerifyLenient(s, sub, acc, FE)
        may == MatchesMay(s, sub, ev.last)
        strict == MatchesStrict(s, sub)
        struct == StructOK(s, sub, acc, FE, V)
        rep == {ev.reported[k][1] : k \in DOMAIN ev.reported}
        onlyIncompat ==
            /\ acc # {} /\ AllParsable(s, acc) /\ ~ChainBroken(s, sub, acc) /\ ~LoopHit(s, V)
            /\ ~AllCompatible(FE)
        onlyMismatch ==
            /\ struct /\ ~may /\ ~BeneathNonDir(s, FE)
    IN IF len # {} THEN {}
       ELSE IF ~ev.keep THEN
         (IF ev.end = "ok" /\ ev.ret /\ ~may THEN {"C01.FalseAccept"} ELSE {})
         \cup (IF ev.end # "ok" /\ strict THEN {"C01.FalseReject"} ELSE {})
         \cup (IF ev.end = "ok" /\ ~ev.ret /\ strict THEN {"C01.FalseReject"} ELSE {})
         \cup (IF ev.end = "fail" /\ onlyIncompat /\ ev.exc # "ManifestIncompatibleEntry"
                  /\ BadEntsStrict(s, { x \in FE : x[2].tag # "MANIFEST" }) = {}
                  /\ StraysStrict(s, FE, V) = {}
               THEN {"C01.NotIncompatible"} ELSE {})
         \cup (IF ev.end = "fail" /\ onlyMismatch /\ ev.exc # "ManifestMismatch"
               THEN {"C01.NotMismatch"} ELSE {})
         \cup (IF ev.end = "fail" /\ ev.exc = "ManifestSymlinkLoop" /\ ~LoopHit(s, V)
               THEN {"C16.SpuriousLoop"} ELSE {})
         \cup (IF ev.end = "ok" /\ LoopHit(s, V) THEN {"C16.LoopAccepted"} ELSE {})
         \cup (IF ev.end = "ok" /\ ev.ret /\ (acc = {} \/ ~AllParsable(s, acc) \/ ChainBroken(s, sub, acc))
               THEN {"C02.BrokenChainUsed"} ELSE {})
       ELSE \* keep-going mode (C07)
         IF ~struct \/ BeneathNonDir(s, FE) THEN
            \* (which paths have to be reported is not judged here; but a tree that does not match must
            \* not pass without ANY report, and the result must follow the handler's answers)
            (IF ev.end = "ok" /\ ev.ret /\ ~may /\ ev.reported = <<>> THEN {"C07.FalseAccept"} ELSE {})
            \cup (IF ev.end = "ok" /\
                     (ev.ret = (\E k \in DOMAIN ev.reported : ev.reported[k][2] = "F"))
                  THEN {"C07.Result"} ELSE {})
            \cup (IF ev.end = "ok" /\ (acc = {} \/ ~AllParsable(s, acc) \/ ChainBroken(s, sub, acc))
                  THEN {"C02.BrokenChainUsed"} ELSE {})
         ELSE
            (IF ev.end # "ok" THEN {"C07.Raised"} ELSE {})
            \cup (IF \E p \in OffendingMust(s, sub, ev.last) : p \notin rep
                  THEN {"C07.Missed"} ELSE {})
            \cup (IF \E p \in rep : p \notin OffendingStrict(s, sub)
                  THEN {"C07.Spurious"} ELSE {})
            \cup (IF \E a \in DOMAIN ev.reported : \E b \in DOMAIN ev.reported :
                        a < b /\ ev.reported[a][1] = ev.reported[b][1]
                  THEN {"C07.Duplicate"} ELSE {})
            \cup (IF ev.end = "ok" /\
                     (ev.ret = (\E k \in DOMAIN ev.reported : ev.reported[k][2] = "F"))
                  THEN {"C07.Result"} ELSE {})

VerifyZones(s, ev) ==
    LET acc == Accepted(s, ev.sub) IN VerifyLenient(s, ev.sub, acc, FileEnts(s, ev.sub, acc))

(* ---------------- single-path lookups (C02) ---------------------------- *)
(* Loading for one path proceeds in rounds (load_manifests_for_path): every MANIFEST entry, in a  *)
(* Manifest loaded so far, that names a not yet loaded Manifest in an ancestor directory of the    *)
(* path schedules it, and it is checked against EVERY such entry of this round; one mismatch       *)
(* raises.  (An entry in a Manifest loaded in a later round than its target is not looked at.)     *)
RECURSIVE UpRounds(_, _, _, _)
UpRounds(s, path, acc, fuel) ==      \* -> [acc, broken]
    LET refs == { x \in UNION { { <<Full(MfAt(s, mp), e), e>> :
                                    e \in { y \in Ents(MfAt(s, mp)) : y.tag = "MANIFEST" /\ ~y.odd } }
                                : mp \in acc \cap MfPaths(s) } :
                    x[1] \notin acc /\ IsPfx(Dir(x[1]), path) }
        bad  == { x \in refs : ~FileStrict(s, x[1], x[2]) }
    IN IF bad # {} THEN [acc |-> acc, broken |-> TRUE]
       ELSE IF refs = {} \/ fuel = 0 THEN [acc |-> acc, broken |-> FALSE]
       ELSE UpRounds(s, path, acc \cup { x[1] : x \in refs }, fuel - 1)

UpResult(s, path) ==
    IF s.top \in MfPaths(s) THEN UpRounds(s, path, {s.top}, Cardinality(MfSet(s)) + 1)
    ELSE [acc |-> {}, broken |-> TRUE]

(* entries that may answer a path lookup *)
PathCands(s, path, acc) ==
    { x \in AllEnts(s, acc) :
        \/ (x[2].tag = "IGNORE" /\ IsPfx(x[1], path))
        \/ (x[2].tag # "IGNORE" /\ x[1] = path) }

DistCands(s, name, acc) ==
    UNION { { e \in Ents(MfAt(s, mp)) : e.tag = "DIST" /\ e.p = <<name>> } : mp \in acc }

SameEntry(r, full, e) ==
    /\ r.tag = e.tag /\ r.p = full
    /\ (e.tag = "IGNORE" \/ (r.size = e.size /\ SeqSet(r.ck) = SeqSet(e.ck)))

LookupClauses(s, ev) ==
    LET path == ev.sub
        lpath == IF ev.api = "find_dist_entry" THEN ev.sub \o <<"">> ELSE ev.sub
        up   == UpResult(s, lpath)
        acc  == up.acc
        broken == acc = {} \/ up.broken \/ ~AllParsable(s, acc)
        cands == PathCands(s, path, acc)
    IN IF OddPaths(s) THEN {}
       ELSE IF broken THEN
          (IF ev.end = "ok" THEN {"C02.BrokenChainUsed"} ELSE {})
       ELSE IF ev.api = "find_path_entry" THEN
          (IF ev.end # "ok" THEN {"C02.LookupFailed"} ELSE {})
          \cup (IF ev.end = "ok" /\ ev.res = <<>> /\ cands # {} THEN {"C02.EntryMissed"} ELSE {})
          \cup (IF ev.end = "ok" /\ ev.res # <<>> /\
                   ~\E x \in cands : SameEntry(ev.res[1], x[1], x[2])
                THEN {"C02.UntrustedEntry"} ELSE {})
       ELSE IF ev.api = "find_dist_entry" THEN
          LET dc == DistCands(s, ev.name, acc) IN
          (IF ev.end # "ok" THEN {"C02.LookupFailed"} ELSE {})
          \cup (IF ev.end = "ok" /\ ev.res = <<>> /\ dc # {} THEN {"C02.EntryMissed"} ELSE {})
          \cup (IF ev.end = "ok" /\ ev.res # <<>> /\
                   ~\E e \in dc : SameEntry(ev.res[1], e.p, e)
                THEN {"C02.UntrustedEntry"} ELSE {})
       ELSE \* verify_path / assert_path_verifies: boolean outcome in ev.ret
          LET okBy(x) == x[2].tag = "IGNORE" \/ FileStrict(s, path, x[2])
              absentOK == Kind(s, path) \in {"absent", "dangling"}
              mayTrue  == IF cands = {} THEN absentOK ELSE \E x \in cands : okBy(x)
              mayFalse == IF cands = {} THEN Kind(s, path) # "absent" ELSE \E x \in cands : ~okBy(x)
              beneath == \E q \in { SubSeq(path, 1, k) : k \in 1..(Len(path) - 1) } :
                            Kind(s, q) \in {"file", "other", "dangling"}
          IN IF beneath THEN {}
             ELSE (IF ev.end \in {"oserror", "internal"} THEN {"C02.LookupFailed"} ELSE {})
             \cup (IF ev.end = "ok" /\ ev.ret /\ ~mayTrue THEN {"C02.FalseAccept"} ELSE {})
             \cup (IF ev.end = "ok" /\ ~ev.ret /\ ~mayFalse THEN {"C02.FalseReject"} ELSE {})
             \cup (IF ev.end = "fail" /\ ~mayFalse THEN {"C02.FalseReject"} ELSE {})

Clauses(r) == IF r.ev.a = "verify" THEN VerifyClauses(r.s, r.ev) ELSE LookupClauses(r.s, r.ev)
Zones(r)   == IF r.ev.a = "verify" THEN VerifyZones(r.s, r.ev) ELSE {}

Init == i \in 1..Len(Trace) /\ done = FALSE

Next == /\ ~done /\ done' = TRUE /\ i' = i
        /\ LET r == Trace[i] IN
             /\ \A c \in Clauses(r) : PrintT(<<"V", r.id, c>>)
             /\ \A z \in Zones(r) : PrintT(<<"L", r.id, z>>)
             /\ PrintT(<<"K", r.id>>)

Spec == Init /\ [][Next]_vars
=============================================================================
