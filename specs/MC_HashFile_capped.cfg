SPECIFICATION Spec
CONSTANTS
  MaxLen = 7
  BUF = 2
  SLURP = 4
  SlurpCapped = TRUE
INVARIANT Prefix
INVARIANT Whole
INVARIANT SizeOK
