SPECIFICATION Spec
CONSTANTS
  Family = "flat"
  Names <- NamesPair
  Keep <- KeepBoth
  Lasts <- LastsAll
  ShortCircuit = FALSE
  Export = FALSE
INVARIANT C01_Sound
INVARIANT C01_Complete
INVARIANT C01_Exact
INVARIANT C01_Incompatible
INVARIANT C02_Chain
INVARIANT C02_Broken
INVARIANT C07_Exact
INVARIANT C07_Returns
