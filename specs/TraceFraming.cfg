SPECIFICATION Spec
