------------------------------ MODULE EntryLine ------------------------------
(***************************************************************************)
(* C09: the Manifest line grammar as a decision table.                     *)
(*                                                                         *)
(* A line is  <<tag, f1, ..., fn>>  after splitting on white space.  A     *)
(* field is described by what its text is good for:                        *)
(*    [path, slash, size, ts]                                              *)
(*    path  "ok" | "bad" | "len"   usable as a relative path?  bad = empty,*)
(*          absolute (however escaped), invalid / out-of-range escape;     *)
(*          len = lenient (lone surrogate escapes)                         *)
(*    slash TRUE if the decoded path contains "/"                          *)
(*    size  "ok" canonical decimal | "bad" not a non-negative integer |    *)
(*          "len" lenient spelling (+1, 1_0, -0, non-ASCII digits)         *)
(*    ts    "ok" | "bad" | "len"   ISO-8601 %Y-%m-%dT%H:%M:%SZ              *)
(* A line with six fields additionally says whether its two checksum names *)
(* are the same word (variable dup).                                       *)
(* Layer P:  Valid(line) / MustReject(line).                               *)
(* Layer A:  Parse(line) follows manifest.py (from_list, process_path,     *)
(*           process_checksums) check by check.                            *)
(***************************************************************************)
EXTENDS Naturals, Sequences, FiniteSets, TLC

CONSTANTS MaxFields,
          EscAbsCheck,   \* FALSE = historical: absolute-path test before unescaping (F4)
          RangeCheck,    \* FALSE = historical: chr() of an out-of-range value raises (F5)
          DupCheck       \* FALSE = historical: a checksum name listed twice, the last value wins (F48)

FileTags  == {"DATA", "MANIFEST", "MISC", "EBUILD", "AUX", "DIST"}
KnownTags == FileTags \cup {"IGNORE", "TIMESTAMP"}
Tags      == KnownTags \cup {"UNKNOWN"}          \* UNKNOWN: any other first word (FOO, data, -)

(* representative field shapes; `why` only documents the representative    *)
F(path, slash, size, ts, raw, why) ==
    [path |-> path, slash |-> slash, size |-> size, ts |-> ts, raw |-> raw, why |-> why]
(* raw: how the historical parser sees a "bad" path:                       *)
(*   "abs"     leading "/" in the raw text                                 *)
(*   "escabs"  leading "/" only after unescaping                           *)
(*   "badesc"  malformed escape (caught by the regex callback)             *)
(*   "range"   well-formed \UHHHHHHHH whose value exceeds 0x10FFFF         *)
Fields ==
    { F("ok",  FALSE, "bad", "bad", "",       "plain name"),
      F("ok",  TRUE,  "bad", "bad", "",       "name with slash (maybe escaped)"),
      F("ok",  FALSE, "ok",  "bad", "",       "decimal number"),
      F("ok",  FALSE, "len", "bad", "",       "lenient number (+1, 1_0)"),
      F("ok",  FALSE, "bad", "ok",  "",       "timestamp"),
      F("ok",  FALSE, "bad", "len", "",       "lenient timestamp"),
      F("len", FALSE, "bad", "bad", "",       "surrogate escape"),
      F("bad", TRUE,  "bad", "bad", "abs",    "absolute path"),
      F("bad", TRUE,  "bad", "bad", "escabs", "escaped absolute path"),
      F("bad", FALSE, "bad", "bad", "badesc", "bare backslash / short / non-hex escape"),
      F("bad", FALSE, "bad", "bad", "range",  "escape value above 0x10FFFF") }

Lines == { <<t>> \o fs : t \in Tags, fs \in UNION { [1..n -> Fields] : n \in 0..MaxFields } }

Tag(l)  == l[1]
NF(l)   == Len(l) - 1
Fld(l, k) == l[k + 1]

(* ---- Layer P ----------------------------------------------------------- *)
(* what the property names as malformed *)
MustReject(l, d) ==
    \/ Tag(l) \in FileTags /\ d                    \* a checksum name listed twice: not every listed
                                                  \* value can be honoured by a name -> value table
    \/ Tag(l) \notin KnownTags
    \/ Tag(l) = "TIMESTAMP" /\ (NF(l) # 1 \/ Fld(l, 1).ts = "bad")
    \/ Tag(l) = "IGNORE"    /\ (NF(l) # 1 \/ Fld(l, 1).path = "bad")
    \/ Tag(l) \in FileTags /\
         \/ NF(l) < 2
         \/ Fld(l, 1).path = "bad"
         \/ Tag(l) = "DIST" /\ Fld(l, 1).slash
         \/ Fld(l, 2).size = "bad"
         \/ (NF(l) - 2) % 2 = 1                    \* checksum name without value

(* what must be accepted as an entry *)
MustAccept(l, d) ==
    /\ ~(Tag(l) \in FileTags /\ d)
    /\ Tag(l) \in KnownTags
    /\ Tag(l) = "TIMESTAMP" => (NF(l) = 1 /\ Fld(l, 1).ts = "ok")
    /\ Tag(l) = "IGNORE"    => (NF(l) = 1 /\ Fld(l, 1).path = "ok")
    /\ Tag(l) \in FileTags  =>
         /\ NF(l) >= 2 /\ Fld(l, 1).path = "ok" /\ ~(Tag(l) = "DIST" /\ Fld(l, 1).slash)
         /\ Fld(l, 2).size = "ok" /\ (NF(l) - 2) % 2 = 0

(* everything else is a lenient zone: either outcome, but never a crash     *)
Outcomes == {"entry", "syntax"}

(* ---- Layer A ----------------------------------------------------------- *)
ProcessPath(f) ==          \* process_path: "ok" | "syntax" | "crash"
    IF f.raw = "abs" THEN "syntax"
    ELSE IF f.raw = "escabs" THEN (IF EscAbsCheck THEN "syntax" ELSE "ok")
    ELSE IF f.raw = "badesc" THEN "syntax"
    ELSE IF f.raw = "range" THEN (IF RangeCheck THEN "syntax" ELSE "crash")
    ELSE "ok"

Parse(l, d) ==
    IF Tag(l) \notin KnownTags THEN "syntax"                         \* KeyError -> syntax
    ELSE IF Tag(l) = "TIMESTAMP" THEN
         IF NF(l) # 1 THEN "syntax" ELSE IF Fld(l, 1).ts = "bad" THEN "syntax" ELSE "entry"
    ELSE IF Tag(l) = "IGNORE" THEN
         IF NF(l) # 1 THEN "syntax"
         ELSE LET p == ProcessPath(Fld(l, 1)) IN IF p = "ok" THEN "entry" ELSE p
    ELSE \* file-style tags: process_path(data[:2]) first, then process_checksums(data)
         IF NF(l) < 1 THEN "syntax"                                   \* len(data[:2]) != 2
         ELSE LET p == ProcessPath(Fld(l, 1)) IN
              IF p # "ok" THEN p
              ELSE IF Tag(l) = "DIST" /\ Fld(l, 1).slash THEN "syntax"
              ELSE IF NF(l) < 2 THEN "syntax"
              ELSE IF Fld(l, 2).size = "bad" THEN "syntax"
              ELSE IF (NF(l) - 2) % 2 = 1 THEN "syntax"
              ELSE IF d /\ DupCheck THEN "syntax"
              ELSE "entry"

(* ---- the model: one state per line -------------------------------------- *)
VARIABLES line, dup, outcome
vars == <<line, dup, outcome>>
Plain == F("ok",  FALSE, "bad", "bad", "",       "plain name")
Init == /\ \/ /\ \E t \in Tags : \E n \in 0..MaxFields : \E fs \in [1..n -> Fields] : line = <<t>> \o fs
              /\ dup = FALSE
           \/ /\ \E t \in Tags : \E f1, f2 \in Fields : line = <<t, f1, f2, Plain, Plain, Plain, Plain>>
              /\ dup \in BOOLEAN                   \* path size name value name value
        /\ outcome = "none"
Step == outcome = "none" /\ outcome' = Parse(line, dup) /\ UNCHANGED <<line, dup>>
Spec == Init /\ [][Step]_vars

Total     == outcome \in Outcomes \cup {"none"}                 \* never a crash (C09 / C18)
Rejects   == (outcome # "none" /\ MustReject(line, dup)) => outcome = "syntax"
Accepts   == (outcome # "none" /\ MustAccept(line, dup)) => outcome = "entry"
Disjoint  == ~(MustReject(line, dup) /\ MustAccept(line, dup))
=============================================================================
