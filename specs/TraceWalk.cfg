SPECIFICATION Spec
