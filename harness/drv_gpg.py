"""C05 drivers.
 1. scripted backend: status sequences (the space GpgStatus.tla explores) fed to the real
    SystemGPGEnvironment.verify_file / ManifestFile.load through a substituted subprocess.Popen
 2. real gpg: key states x owner-trust levels, single-character tampering, keyring isolation
    through `gemato verify -K ... -R` with -s / -P
"""
import io
import itertools
import os
import random
import shutil
import types

from . import tlc

VOCAB = ['NEWSIG', 'GOODSIG', 'BADSIG', 'ERRSIG', 'EXPSIG', 'EXPKEYSIG', 'REVKEYSIG', 'VALIDSIG', 'SIG_ID',
         'KEYEXPIRED', 'KEYREVOKED', 'NO_PUBKEY', 'OTHER', 'TRUST_UNDEFINED', 'TRUST_NEVER',
         'TRUST_MARGINAL', 'TRUST_FULLY', 'TRUST_ULTIMATE']
FPR = '81E12C16BD8DCD60BE180845136880E72A7B1384'
LINES = {
    'NEWSIG': ['[GNUPG:] NEWSIG', '[GNUPG:] NEWSIG gemato@example.com'],
    'GOODSIG': ['[GNUPG:] GOODSIG 136880E72A7B1384 gemato test key <gemato@example.com>'],
    'BADSIG': ['[GNUPG:] BADSIG 136880E72A7B1384 gemato test key <gemato@example.com>'],
    'ERRSIG': ['[GNUPG:] ERRSIG 136880E72A7B1384 1 8 01 1510131686 9 -'],
    'EXPSIG': ['[GNUPG:] EXPSIG 136880E72A7B1384 gemato test key <gemato@example.com>'],
    'EXPKEYSIG': ['[GNUPG:] EXPKEYSIG 136880E72A7B1384 gemato test key <gemato@example.com>'],
    'REVKEYSIG': ['[GNUPG:] REVKEYSIG 136880E72A7B1384 gemato test key <gemato@example.com>'],
    'VALIDSIG': ['[GNUPG:] VALIDSIG %s 2017-11-08 1510131686 0 4 0 1 8 01 %s' % (FPR, FPR),
                 '[GNUPG:] VALIDSIG %s 2017-11-08 20171108T090126 20301108T090126 4 0 22 8 01 %s' % (FPR, FPR)],
    'SIG_ID': ['[GNUPG:] SIG_ID 3EjBBwrb/abcdefghijklmnopqr 2017-11-08 1510131686'],
    'KEYEXPIRED': ['[GNUPG:] KEYEXPIRED 1510131686'],
    'KEYREVOKED': ['[GNUPG:] KEYREVOKED'],
    'NO_PUBKEY': ['[GNUPG:] NO_PUBKEY 136880E72A7B1384'],
    'OTHER': ['[GNUPG:] KEY_CONSIDERED %s 0' % FPR, 'gpg: Signature made Wed Nov  8 09:01:26 2017 UTC',
              '[GNUPG:] PROGRESS trustdb 0 0 0', '[GNUPG:] VERIFICATION_COMPLIANCE_MODE 23', ''],
    'TRUST_UNDEFINED': ['[GNUPG:] TRUST_UNDEFINED 0 pgp', '[GNUPG:] TRUST_UNDEFINED'],
    'TRUST_NEVER': ['[GNUPG:] TRUST_NEVER 0 pgp'],
    'TRUST_MARGINAL': ['[GNUPG:] TRUST_MARGINAL 0 pgp', '[GNUPG:] TRUST_MARGINAL'],
    'TRUST_FULLY': ['[GNUPG:] TRUST_FULLY 0 pgp', '[GNUPG:] TRUST_FULLY 0 direct'],
    'TRUST_ULTIMATE': ['[GNUPG:] TRUST_ULTIMATE 0 pgp', '[GNUPG:] TRUST_ULTIMATE'],
}
# user IDs are copied into the status line with bytes >= 0x80 unescaped: characters that only
# str.splitlines() takes for line ends, followed by text that looks like another status line, must
# stay part of the ONE line they are in (gpg escapes LF and CR only)
_UID = 'gemato test key <gemato@example.com>'
for _sep in ('\u2028', '\u2029', '\u0085', '\x0b', '\x0c', '\x1c', '\x1d', '\x1e'):
    for _forged in ('[GNUPG:] TRUST_ULTIMATE 0 pgp', '[GNUPG:] GOODSIG 136880E72A7B1384 x',
                    '[GNUPG:] VALIDSIG %s 2017-11-08 1510131686 0 4 0 1 8 01 %s' % (FPR, FPR),
                    '[GNUPG:] TRUST_FULLY 0 pgp'):
        LINES['GOODSIG'].append('[GNUPG:] GOODSIG 136880E72A7B1384 Mallory%s%s <m@example.com>' % (_sep, _forged))
        LINES['BADSIG'].append('[GNUPG:] BADSIG 136880E72A7B1384 Mallory%s%s <m@example.com>' % (_sep, _forged))
    LINES['EXPKEYSIG'].append('[GNUPG:] EXPKEYSIG 136880E72A7B1384 Mallory%s[GNUPG:] GOODSIG 136880E72A7B1384 x' % _sep)
    LINES['NEWSIG'].append('[GNUPG:] NEWSIG m%s[GNUPG:] TRUST_ULTIMATE 0 pgp' % _sep)
# keep the plain spellings frequent
for _k in ('GOODSIG', 'BADSIG', 'EXPKEYSIG', 'NEWSIG'):
    LINES[_k] += [LINES[_k][0]] * (len(LINES[_k]) // 2)

RAISE = {'TRUST_UNDEFINED': 'TRUST_NEVER', 'TRUST_NEVER': 'TRUST_MARGINAL', 'TRUST_MARGINAL': 'TRUST_FULLY',
         'TRUST_FULLY': 'TRUST_ULTIMATE'}

SIGNED_TEXT = ('-----BEGIN PGP SIGNED MESSAGE-----\nHash: SHA256\n\nDATA a 1 SHA1 aa\n'
               '-----BEGIN PGP SIGNATURE-----\n\niQEzBAEB\n=abcd\n-----END PGP SIGNATURE-----\n')


class _FakeProc:
    def __init__(self, out, err, rc):
        self._out, self._err, self._rc = out, err, rc

    def communicate(self, stdin=None):
        return self._out, self._err

    def wait(self):
        return self._rc


def classify_exc(gem, e):
    E = gem.gemato.exceptions
    for cls, name in ((E.OpenPGPExpiredKeyFailure, 'expired'), (E.OpenPGPRevokedKeyFailure, 'revoked'),
                      (E.OpenPGPUnknownSigFailure, 'unknown'), (E.OpenPGPUntrustedSigFailure, 'untrusted'),
                      (E.OpenPGPVerificationFailure, 'verification')):
        if isinstance(e, cls):
            return name
    return 'internal:' + type(e).__name__


def run_scripted(gem, seq_lines, rc):
    """verify_file + ManifestFile.load with the backend replaced. -> (obs, signed)"""
    mod = gem.gemato.openpgp
    real_sub = mod.subprocess
    out = ('\n'.join(seq_lines) + '\n').encode('utf8')
    shim = types.ModuleType('subprocess')
    shim.__dict__.update(real_sub.__dict__)
    shim.Popen = lambda *a, **kw: _FakeProc(out, b'gpg: scripted stderr\n', rc)
    mod.subprocess = shim
    try:
        env = mod.SystemGPGEnvironment()
        try:
            r = env.verify_file(io.StringIO(SIGNED_TEXT))
            obs = 'accept' if r is not None else 'internal:None'
        except Exception as e:  # noqa
            obs = classify_exc(gem, e)
        m = gem.gemato.manifest.ManifestFile()
        try:
            m.load(io.StringIO(SIGNED_TEXT), verify_openpgp=True, openpgp_env=env)
        except Exception:  # noqa
            pass
        signed = bool(m.openpgp_signed)
    finally:
        mod.subprocess = real_sub
    return obs, signed


def scripted_records(args):
    seqs, seed = args
    from . import gem
    rng = random.Random(seed)
    recs = []
    for sq, rc in seqs:
        lines = [rng.choice(LINES[w]) for w in sq]
        obs, signed = run_scripted(gem, lines, rc)
        obsup = ''
        if obs == 'accept':
            up = [RAISE.get(w, w) for w in sq]
            if up != list(sq):
                obsup, _ = run_scripted(gem, [rng.choice(LINES[w]) for w in up], rc)
        recs.append({'kind': 'verify', 'sq': list(sq), 'exit': rc, 'obs': obs, 'signed': signed,
                     'obsup': obsup, 'real': False, 'state': {'key': '', 'trust': ''}})
    return recs


def all_status_sequences(maxlen):
    for n in range(0, maxlen + 1):
        for t in itertools.product(VOCAB, repeat=n):
            for rc in (0, 1, 2, 255, -15, -9):
                yield (list(t), rc)


# ---------------------------------------------------------------------------------------------
# real gpg

MANIFEST_BODY = 'DATA a.txt 3 SHA256 %s\nDATA sub/b\\x20c 0 SHA1 da39a3ee5e6b4b0d3255bfef95601890afd80709\nTIMESTAMP 2020-01-02T03:04:05Z\n'
LEVELS = [(2, 'TRUST_UNDEFINED'), (3, 'TRUST_NEVER'), (4, 'TRUST_MARGINAL'), (5, 'TRUST_FULLY'), (6, 'TRUST_ULTIMATE')]


def build_signer():
    """A scratch signer home with keys in every state. -> dict"""
    from . import gpgenv
    import hashlib
    h = gpgenv.Home()
    keys = {}
    keys['valid'] = h.genkey('Valid Signer <valid@example.com>')
    keys['other'] = h.genkey('Other Signer <other@example.com>')
    keys['revoked'] = h.genkey('Revoked Signer <revoked@example.com>')
    # a key generated in the past that has expired by now
    h.run(['--faked-system-time', '20200101T000000', '--pinentry-mode', 'loopback', '--passphrase', '',
           '--quick-generate-key', 'Expired Signer <expired@example.com>', 'ed25519', 'sign', '30d'], check=True)
    rc, out, err = h.run(['--with-colons', '--list-keys', 'expired@example.com'])
    keys['expired'] = [l.split(':')[9] for l in out.decode().splitlines() if l.startswith('fpr:')][0]
    body = MANIFEST_BODY % hashlib.sha256(b'abc').hexdigest()
    signed = {}
    for k in ('valid', 'other', 'revoked'):
        signed[k] = h.clearsign(body, keyid=keys[k])
    signed['expired'] = h.clearsign(body, keyid=keys['expired'], extra=['--faked-system-time', '20200105T000000'])
    pub = dict((k, h.export(keys[k])) for k in keys)
    # revocation certificate generated by gpg at key creation
    revf = os.path.join(h.path, 'openpgp-revocs.d', keys['revoked'] + '.rev')
    rev = open(revf).read().replace(':-----BEGIN', '-----BEGIN')
    pub['revoked'] = pub['revoked'] + rev.encode()
    return {'home': h, 'keys': keys, 'signed': signed, 'pub': pub, 'body': body}


def real_state_records(S, seed):
    """every key state x owner-trust level through gemato's IsolatedGPGEnvironment"""
    from . import gem, gpgenv
    recs = []
    known = set(VOCAB)
    for key in ('valid', 'expired', 'revoked', 'unknown', 'badsig'):
        outcomes = []
        for lvl, tname in LEVELS:
            env = gem.gemato.openpgp.IsolatedGPGEnvironment()
            try:
                kname = {'unknown': 'other', 'badsig': 'valid'}.get(key, key)
                env.import_key(io.BytesIO(S['pub'][kname]), trust=False)
                env._spawn_gpg([gem.gemato.openpgp.GNUPG, '--batch', '--import-ownertrust'],
                               ('%s:%d:\n' % (S['keys'][kname], lvl)).encode())
                text = S['signed'][{'unknown': 'valid', 'badsig': 'valid'}.get(key, key)]
                if key == 'badsig':
                    text = text.replace('DATA a.txt 3', 'DATA a.txt 4')
                vh = gpgenv.Home(env.home)
                rc, st = vh.verify_status(text)
                sq = [(w.split(' ')[0] if w.split(' ')[0] in known else 'OTHER') for w in st]
                try:
                    r = env.verify_file(io.StringIO(text))
                    obs = 'accept' if r is not None else 'internal:None'
                except Exception as e:  # noqa
                    obs = classify_exc(gem, e)
                m = gem.gemato.manifest.ManifestFile()
                try:
                    m.load(io.StringIO(text), verify_openpgp=True, openpgp_env=env)
                except Exception:  # noqa
                    pass
                recs.append({'kind': 'verify', 'sq': sq, 'exit': rc, 'obs': obs, 'signed': bool(m.openpgp_signed),
                             'obsup': '', 'real': True, 'state': {'key': key, 'trust': tname}})
                outcomes.append(obs)
            finally:
                env.close()
        if key == 'valid':
            recs.append({'kind': 'levels', 'outcomes': outcomes})
    return recs


def system_trust_records(S, seed):
    """The system environment (no -K): a persistent user keyring with the classic trust model, in which
    the signer's key is valid only through a certification by an ultimately trusted key.  The trust
    path is withdrawn and restored step by step; after every step gemato is the FIRST gpg user (a trust
    database marked stale must not be answered from), plain gpg is asked second (oracle)."""
    from . import gem, gpgenv
    rng = random.Random('systrust-%d' % seed)
    recs = []
    known = set(VOCAB)
    U = gpgenv.Home()
    old_home = os.environ.get('GNUPGHOME')
    try:
        cert = U.genkey('Certifier <certifier@example.com>')
        U.import_key(S['pub']['valid'])
        sfpr = S['keys']['valid']
        U.run(['--yes', '--pinentry-mode', 'loopback', '--passphrase', '', '--default-key', cert,
               '--quick-sign-key', sfpr], check=True)
        U.kill()
        text = S['signed']['valid']
        steps = [('cert', 6), ('cert', 3), ('cert', 6), ('cert', 2), ('cert', 5), ('cert', 6), ('signer', 6),
                 ('cert', 2), ('signer', 3), ('signer', 2), ('cert', 6), ('cert', 4), ('signer', 6), ('signer', 4)]
        steps += [(rng.choice(['cert', 'signer']), rng.choice([2, 3, 4, 5, 6])) for _ in range(10)]
        steps += [('cert', 6), ('delete-cert', 0)]
        os.environ['GNUPGHOME'] = U.path
        for who, lvl in steps:
            if who == 'delete-cert':
                U.run(['--yes', '--delete-secret-and-public-key', cert])
            else:
                U.set_ownertrust(cert if who == 'cert' else sfpr, lvl)
            U.kill()
            env = gem.gemato.openpgp.SystemGPGEnvironment()
            try:
                r = env.verify_file(io.StringIO(text))
                obs = 'accept' if r is not None else 'internal:None'
            except Exception as e:  # noqa
                obs = classify_exc(gem, e)
            m = gem.gemato.manifest.ManifestFile()
            try:
                m.load(io.StringIO(text), verify_openpgp=True, openpgp_env=env)
            except Exception:  # noqa
                pass
            rc, st = U.verify_status(text)
            sq = [(w.split(' ')[0] if w.split(' ')[0] in known else 'OTHER') for w in st]
            recs.append({'kind': 'verify', 'sq': sq, 'exit': rc, 'obs': obs, 'signed': bool(m.openpgp_signed),
                         'obsup': '', 'real': True, 'state': {'key': 'system:' + who, 'trust': str(lvl)}})
    finally:
        if old_home is None:
            os.environ.pop('GNUPGHOME', None)
        else:
            os.environ['GNUPGHOME'] = old_home
        U.close()
    return recs


def rng_choice(k, xs):
    return xs[k % len(xs)]


def tamper_records(args):
    """(signed text, public key bytes, fingerprint, positions) -> records"""
    text, pub, fpr, positions = args
    from . import gem
    recs = []
    env = gem.gemato.openpgp.IsolatedGPGEnvironment()
    try:
        env.import_key(io.BytesIO(pub))
        lines = text.split('\n')
        g = lines.index('-----BEGIN PGP SIGNATURE-----')
        body_start = len('\n'.join(lines[:3])) + 1
        body_end = len('\n'.join(lines[:g]))
        for pos in positions:
            ch = text[pos]
            inbody = body_start <= pos < body_end
            if ch in ' \t\r\n':
                new, significant = 'x', False
            else:
                new = 'A' if ch != 'A' else 'B'
                significant = inbody
            t2 = text[:pos] + new + text[pos + 1:]
            m = gem.gemato.manifest.ManifestFile()
            try:
                m.load(io.StringIO(t2), verify_openpgp=True, openpgp_env=env)
                obs = 'accept' if m.openpgp_signed else 'plain'
            except gem.GematoException as e:
                obs = classify_exc(gem, e) if 'OpenPGP' in type(e).__name__ else 'syntax'
            except Exception as e:  # noqa
                obs = 'internal:' + type(e).__name__
            recs.append({'kind': 'tamper', 'obs': obs, 'significant': significant, 'pos': pos})
        # NUL bytes added at the end of a signed line (gpg drops them like trailing blanks when it verifies,
        # Python's split() does not): the text that would be used is not the text that was signed
        for pos in positions[:6]:
            j = text.find('\n', max(pos, body_start))
            if j < 0 or j >= body_end:
                continue
            t2 = text[:j] + rng_choice(pos, ['\x00', '\x00\x00 ', ' \x00']) + text[j:]
            m = gem.gemato.manifest.ManifestFile()
            try:
                m.load(io.StringIO(t2), verify_openpgp=True, openpgp_env=env)
                obs = 'accept' if m.openpgp_signed else 'plain'
            except gem.GematoException as e:
                obs = classify_exc(gem, e) if 'OpenPGP' in type(e).__name__ else 'syntax'
            except Exception as e:  # noqa
                obs = 'internal:' + type(e).__name__
            recs.append({'kind': 'tamper', 'obs': obs, 'significant': True, 'pos': j})
    finally:
        env.close()
    return recs


def cli_isolation_records(S, seed):
    from . import gem, gpgenv
    rng = random.Random(seed)
    recs = []
    base = tlc.scratch_dir('c05cli')
    old_home = os.environ.get('GNUPGHOME')
    try:
        # the tree: one file, top-level Manifest signed by `valid`, or unsigned
        trees = {}
        for signed in (True, False):
            d = os.path.join(base, 'tree-%s' % signed)
            os.makedirs(os.path.join(d, 'sub'))
            with open(os.path.join(d, 'a.txt'), 'wb') as f:
                f.write(b'abc')
            with open(os.path.join(d, 'sub', 'b c'), 'wb') as f:
                f.write(b'')
            with open(os.path.join(d, 'Manifest'), 'w') as f:
                f.write(S['signed']['valid'] if signed else S['body'])
            trees[signed] = d
        keyfiles = {}
        for name, parts in (('signer', ['valid']), ('other', ['other']), ('both', ['other', 'valid'])):
            p = os.path.join(base, 'key-%s.asc' % name)
            with open(p, 'wb') as f:
                for k in parts:
                    f.write(S['pub'][k])
            keyfiles[name] = p
        for userhome in ('empty', 'signer_ultimate', 'others'):
            uh = gpgenv.Home()
            try:
                if userhome == 'signer_ultimate':
                    uh.import_key(S['pub']['valid'])
                    uh.set_ownertrust(S['keys']['valid'], 6)
                elif userhome == 'others':
                    uh.import_key(S['pub']['other'])
                    uh.set_ownertrust(S['keys']['other'], 6)
                uh.kill()
                os.environ['GNUPGHOME'] = uh.path
                for kf in ('signer', 'other', 'both'):
                    for signed in (True, False):
                        for fs in (False, True):
                            for fp in (False, True):
                                before = uh.snapshot()
                                argv = ['verify', '-K', keyfiles[kf], '-R']
                                if fs:
                                    argv.append('-s')
                                if fp:
                                    argv.append('-P')
                                argv.append(trees[signed])
                                o = gem.run_cli(argv)
                                uh.kill()
                                after = uh.snapshot()
                                recs.append({'kind': 'cli', 'signer_in_keyfile': kf in ('signer', 'both'),
                                             'flag_s': fs, 'flag_P': fp, 'signed_manifest': signed,
                                             'status': o['status'] if o['end'] == 'ok' else -1,
                                             'user_home_same': before == after, 'userhome': userhome,
                                             'keyfile': kf, 'end': o['end'], 'exc': o['exc']})
                    # ---- growth: `gemato openpgp-verify` on 1-2 files (signed by `valid`, unsigned, tampered)
                    texts = {'good': S['signed']['valid'], 'unsigned': S['body'],
                             'tampered': S['signed']['valid'].replace('DATA a.txt 3', 'DATA a.txt 4')}
                    for combo in (('good',), ('unsigned',), ('tampered',), ('good', 'good'), ('good', 'tampered'),
                                  ('tampered', 'good')):
                        paths = []
                        for j, t in enumerate(combo):
                            fp_ = os.path.join(base, 'opv-%d-%s.txt' % (j, t))
                            with open(fp_, 'w') as f:
                                f.write(texts[t])
                            paths.append(fp_)
                        before = uh.snapshot()
                        o = gem.run_cli(['openpgp-verify', '-K', keyfiles[kf], '-R'] + paths)
                        uh.kill()
                        recs.append({'kind': 'cliopv', 'signer_in_keyfile': kf in ('signer', 'both'),
                                     'files': list(combo), 'status': o['status'] if o['end'] == 'ok' else -1,
                                     'user_home_same': before == uh.snapshot(), 'userhome': userhome, 'keyfile': kf,
                                     'end': o['end'], 'exc': o['exc']})
                    # ---- growth: `gemato gpg-wrap`: the child sees exactly the keys of the key file; its exit
                    # status is passed on
                    outp = os.path.join(base, 'wrap.out')
                    for child_rc in (0, 3):
                        if os.path.exists(outp):
                            os.unlink(outp)
                        before = uh.snapshot()
                        o = gem.run_cli(['gpg-wrap', '-K', keyfiles[kf], '-R', '--', 'sh', '-c',
                                         'gpg --batch --with-colons --list-keys > %s 2>/dev/null; exit %d' % (outp, child_rc)])
                        uh.kill()
                        seen = []
                        if os.path.exists(outp):
                            with open(outp) as f:
                                pub = False
                                for line in f:
                                    fl = line.split(':')
                                    if fl[0] == 'pub':
                                        pub = True
                                    elif fl[0] == 'fpr' and pub:
                                        seen.append(fl[9])
                                        pub = False
                        want = sorted(S['keys'][k] for k in {'signer': ['valid'], 'other': ['other'], 'both': ['other', 'valid']}[kf])
                        recs.append({'kind': 'cliwrap', 'keys_seen_ok': sorted(seen) == want, 'child_rc': child_rc,
                                     'status': o['status'] if o['end'] == 'ok' and isinstance(o['status'], int) else -1,
                                     'user_home_same': before == uh.snapshot(), 'userhome': userhome, 'keyfile': kf,
                                     'end': o['end'], 'exc': o['exc']})
            finally:
                uh.close()
    finally:
        if old_home is None:
            os.environ.pop('GNUPGHOME', None)
        else:
            os.environ['GNUPGHOME'] = old_home
        shutil.rmtree(base, ignore_errors=True)
    return recs
