"""C18 driver: the trees and Manifest texts of the C01 / C03 / C09 generators, with their odd
cases made frequent, through `gemato verify`, `gemato update` (whole tree and sub-directories)
and `gemato create` with every profile.  Only the way each run ENDS is judged here."""
import os
import random
import shutil

from . import drv_entry
from . import drv_update
from . import fsmodel as fm
from . import gen
from . import tlc

def copy_tree(src, dst):
    """like shutil.copytree(symlinks=True) but also re-creates FIFOs"""
    import stat as _stat
    os.makedirs(dst)
    for n in os.listdir(src):
        a, b = os.path.join(src, n), os.path.join(dst, n)
        st = os.lstat(a)
        if _stat.S_ISLNK(st.st_mode):
            os.symlink(os.readlink(a), b)
        elif _stat.S_ISDIR(st.st_mode):
            copy_tree(a, b)
        elif _stat.S_ISFIFO(st.st_mode):
            os.mkfifo(b)
        elif _stat.S_ISREG(st.st_mode):
            shutil.copy2(a, b)


ODD_LINES = ['IGNORE dup', 'IGNORE dup', 'DATA weird 3 FOO 00', 'DATA whirl 3 WHIRLPOOL 00', 'DATA \\U00110000 0',
             'DATA \\UFFFFFFFF 0', 'DATA \\uD800x 1', 'DATA d 0', 'TIMESTAMP 2017-02-30T00:00:00Z', 'TIMESTAMP 0017-01-01T00:00:00Z',
             'MANIFEST nowhere/Manifest 10 SHA1 00', 'MANIFEST . 0', 'DATA a/../b 1', 'AUX patch 1', 'AUX ../x 1',
             'DIST a/b 1', 'DATA x 1 SHA1', 'FOO bar', 'DATA \\x2Fetc/passwd 0', 'MISC m 1 SHA1 zz SHA1 yy',
             'IGNORE .', 'IGNORE a/', 'DATA trailing/ 1', 'EBUILD e-1.ebuild 0', 'DATA dir-entry 0 SHA1 da39a3ee5e6b4b0d3255bfef95601890afd80709']


def _sha1(b):
    import hashlib
    return hashlib.sha1(b).hexdigest()


def odd_structure(rng, root, L, mp):
    """Legal-but-unusual arrangements that need files next to the lines: returns the lines to append
    to the Manifest `mp` (paths relative to its directory) after creating what they name."""
    import bz2
    import gzip
    import lzma
    d = os.path.join(root, os.path.dirname(mp))
    kind = rng.choice(['hidden_dir_entry', 'ignored_manifest', 'hidden_manifest', 'data_and_manifest',
                       'corrupt_compressed', 'corrupt_compressed', 'now_ignored', 'files_file', 'odd_manifest_path',
                       'self_reference', 'self_listing_sub', 'dup_lines_missing', 'sysfs_link', 'binary_manifest', 'manifest_ring',
                       'ignore_and_entry', 'ignore_and_entry'])
    subm = b'DATA f 1 SHA1 ' + _sha1(b'x').encode() + b'\n'

    def put(rel, data):
        fp = os.path.join(d, rel)
        os.makedirs(os.path.dirname(fp), exist_ok=True)
        if not os.path.lexists(fp):
            with open(fp, 'wb') as f:
                f.write(data)
            return True
        return False
    try:
        if kind == 'hidden_dir_entry':
            # a hidden directory that a Manifest entry names (IGNORE, or a file entry)
            put('.hid/f', b'x')
            return [rng.choice(['IGNORE .hid', 'DATA .hid 0', 'DATA .hid/f 1 SHA1 ' + _sha1(b'x'), 'MISC .hid 1'])]
        if kind in ('ignored_manifest', 'hidden_manifest', 'data_and_manifest'):
            dn = {'ignored_manifest': 'ign', 'hidden_manifest': '.hm', 'data_and_manifest': 'dm'}[kind]
            if not put(dn + '/Manifest', subm):
                return []
            put(dn + '/f', b'x')
            ml = 'MANIFEST %s/Manifest %d SHA1 %s' % (dn, len(subm), _sha1(subm))
            if kind == 'ignored_manifest':
                ls = ['IGNORE ' + dn, ml]
                rng.shuffle(ls)
                return ls
            if kind == 'data_and_manifest':
                ls = ['DATA %s/Manifest %d SHA1 %s' % (dn, len(subm), _sha1(subm)), ml]
                rng.shuffle(ls)
                return ls
            return [ml]
        if kind == 'corrupt_compressed':
            ext = rng.choice(['gz', 'bz2', 'xz', 'lzma'])
            good = {'gz': gzip.compress(subm), 'bz2': bz2.compress(subm), 'xz': lzma.compress(subm),
                    'lzma': lzma.compress(subm, format=lzma.FORMAT_ALONE)}[ext]
            data = {'trunc': good[:-6], 'garbage': b'not compressed at all\n', 'empty': b'', 'tail': good + b'junk',
                    'half': good[:len(good) // 2],
                    # valid header of the format, then rubbish
                    'body': good[:10] + b'\xff\xff\xff\xff garbage garbage garbage'}[
                        rng.choice(['trunc', 'garbage', 'empty', 'tail', 'half', 'body', 'body'])]
            if not put('cc/Manifest.' + ext, data):
                return []
            put('cc/f', b'x')
            if rng.random() < 0.4:
                return []                   # left unregistered: update and create meet it
            return ['MANIFEST cc/Manifest.%s %d SHA1 %s' % (ext, len(data), _sha1(data))]
        if kind == 'files_file' and os.path.dirname(mp) == '':
            # a package whose `files` is a regular file (old-ebuild types the third component `files` as AUX)
            put('oc/op/op-1.ebuild', b'EAPI=8\n')
            put('oc/op/files', b'not a directory')
            return []
        if kind == 'odd_manifest_path':
            # MANIFEST entries whose path cannot be handed to the OS (NUL, lone surrogate), or names a directory
            put('om/f', b'x')
            return [rng.choice(['MANIFEST om/Mani\\x00fest 0', 'MANIFEST om/\\uD800 0', 'MANIFEST om 0',
                                'MANIFEST om/Mani\\x00fest.gz 0'])]
        if kind == 'self_reference' and os.path.dirname(mp) == '':
            # the top-level Manifest names itself as a sub-Manifest, or an unregistered Manifest.gz next to it does
            if rng.random() < 0.5:
                return ['MANIFEST Manifest 0']
            import gzip as _gz
            put('Manifest.gz', _gz.compress(b'MANIFEST Manifest 0\n'))
            return []
        if kind == 'self_listing_sub':
            # an unregistered sub-Manifest that lists itself, with another unregistered one below it
            if put('sl/Manifest', rng.choice([b'DATA Manifest 0\n', b'MANIFEST Manifest 0\n', b'MANIFEST Manifest 19 SHA1 00\n'])):
                put('sl/deep/Manifest', b'')
                put('sl/deep/f', b'x')
            return []
        if kind == 'ignore_and_entry':
            # one path both IGNOREd and listed with checksums - IGNORE first or last, in one Manifest or with
            # the IGNORE in a deeper one: an incompatibility to be diagnosed
            put('ie/f', b'x')
            ent = rng.choice(['DATA ie/f 1 SHA1 ' + _sha1(b'x'), 'MISC ie/f 1', 'MANIFEST ie/f 1 SHA1 ' + _sha1(b'x')])
            how = rng.choice(['first', 'last', 'deeper'])
            if how == 'deeper' and put('ie/Manifest', b'IGNORE f\n'):
                m_ = b'IGNORE f\n'
                return ['MANIFEST ie/Manifest %d SHA1 %s' % (len(m_), _sha1(m_)), ent]
            return ['IGNORE ie/f', ent] if how != 'last' else [ent, 'IGNORE ie/f']
        if kind == 'dup_lines_missing':
            # identical duplicate lines for a file that is gone, which an outer Manifest lists as well
            if put('dl/Manifest', b'DATA a 1 SHA1 00\nDATA a 1 SHA1 00\n'):
                put('dl/keep', b'k')
                m_ = b'DATA a 1 SHA1 00\nDATA a 1 SHA1 00\n'
                return ['MANIFEST dl/Manifest %d SHA1 %s' % (len(m_), _sha1(m_)), 'DATA dl/a 1 MD5 00']
            return []
        if kind == 'manifest_ring':
            # three Manifests of one directory referencing each other in a ring (sizes consistent, no hashes)
            if put('rg/Manifest', b'MANIFEST M2 15\n'):
                put('rg/M2', b'MANIFEST M3 21\n')
                put('rg/M3', b'MANIFEST Manifest 15\n')
                put('rg/f', b'x')
                return ['MANIFEST rg/Manifest 15'] if rng.random() < 0.7 else []
            return []
        if kind == 'binary_manifest':
            # a file that merely has a Manifest name: binary, not even UTF-8
            put('bm/Manifest', b'\x1f\x8b\x08broken\xff\xfe\x00')
            put('bm/f', b'x')
            return [] if rng.random() < 0.6 else ['MANIFEST bm/Manifest 13 SHA1 ' + _sha1(b'\x1f\x8b\x08broken\xff\xfe\x00')]
        if kind == 'sysfs_link':
            # a file whose st_size is not its length (sysfs), reached through a symlink
            for cand in ('/sys/kernel/warn_count', '/sys/devices/system/cpu/online', '/sys/kernel/uevent_seqnum'):
                if os.path.isfile(cand):
                    lp = os.path.join(d, 'syslnk')
                    if not os.path.lexists(lp):
                        os.symlink(cand, lp)
                    break
            return []
        if kind == 'now_ignored' and os.path.dirname(mp) == '':
            # paths the ebuild profiles put under IGNORE in a Manifest they newly create
            rel = rng.choice(['metadata/timestamp', 'metadata/timestamp.chk', 'metadata/dtd/timestamp.chk',
                              'metadata/glsa/timestamp.commit'])
            put(rel, b'x')
            put(os.path.dirname(rel) + '/other', b'x')
            return ['DATA %s 1 SHA1 %s' % (rel, _sha1(b'x'))] if rng.random() < 0.8 else []
    except OSError:
        pass
    return []


def odd_tree(rng, root):
    L = gen.random_layout(rng, dupnames=True)
    L.write(root)
    notes = []
    for _ in range(rng.choice([0, 1, 2, 3])):
        m = gen.mutate(rng, L, root)
        if m:
            notes.append(m['m'])
    notes += [p['prior'] for p in drv_update.perturb_prior(rng, L, root)]
    # odd lines injected into a random Manifest (top-level or sub), parents left stale or fixed
    if rng.random() < 0.7:
        mfs = [m for m in L.mf if os.path.isfile(os.path.join(root, m)) and fm.compression_of(m) == 'plain']
        if mfs:
            mp = rng.choice(mfs)
            lines = rng.sample(ODD_LINES, rng.randrange(1, 4))
            if rng.random() < 0.5:
                lines += odd_structure(rng, root, L, mp)
            if rng.random() < 0.003:
                lines.append('MANIFEST ./Manifest 0')      # self-reference (slow, ~15 s per command: known finding F22)
            with open(os.path.join(root, mp), 'ab') as f:
                f.write(('\n'.join(lines) + '\n').encode('utf8'))
            if 'DATA dir-entry 0' in ' '.join(lines):
                os.makedirs(os.path.join(root, os.path.dirname(mp), 'dir-entry'), exist_ok=True)
            if rng.random() < 0.6:
                L2_only = None
                try:
                    # keep the chain intact so that the odd content is actually reached
                    for par in L.order():
                        for e in L.mf[par]:
                            if e['tag'] == 'MANIFEST' and e.get('ref') == mp:
                                data = open(os.path.join(root, mp), 'rb').read()
                                e['size'] = len(data)
                                e['ck'] = dict((h, fm.digest(h, data)) for h in e['ck'])
                                e['frozen'] = True
                    L.write_manifests(root, only=set(m for m in L.mf if m != mp and os.path.isfile(os.path.join(root, m))
                                                     and fm.compression_of(m) == 'plain' and False))
                except Exception:  # noqa
                    pass
            notes.append('odd:' + '|'.join(lines))
    if rng.random() < 0.1:
        with open(os.path.join(root, 'Manifest'), 'wb') as f:
            f.write(b'')
        notes.append('empty-top')
    return L, notes


def one_tree(args):
    seed, idx, o = args
    from . import gem
    rng = random.Random('outcome-%d-%d' % (seed, idx))
    base = tlc.scratch_dir('vo')
    recs = []
    try:
        root = os.path.join(base, 't')
        os.mkdir(root)
        L, notes = odd_tree(rng, root)
        dirs = [d for d in L.dirs if os.path.isdir(os.path.join(root, d))]
        sub = rng.choice(dirs) if dirs else ''

        def snap(r):
            namer = fm.Namer()
            top = 'Manifest'
            return fm.project(r, top, namer=namer), namer

        def rec(s, namer, cmd, subp, profile, ob, cli=True):
            end = ob['end']
            if cli and end == 'ok' and ob.get('status') not in (0, None):
                end = 'fail' if ob.get('status') == 1 else 'ok'
            return {'s': s, 'cmd': cmd, 'sub': namer.path(subp), 'profile': profile, 'end': end, 'exc': ob['exc'] or '',
                    'status': ob.get('status') if isinstance(ob.get('status'), int) else -1, 'cli': cli,
                    'meta': {'seed': seed, 'idx': idx, 'notes': notes, 'tb': ob.get('tb', ''),
                             'errors': [str(x)[:100] for x in ob.get('errors', [])[:2]]}}
        s, namer = snap(root)
        # verify: whole tree, a sub-directory, keep-going
        for subp, extra in (('', []), (sub, []), ('', ['-k'])):
            ob = gem.run_cli(['verify', '-P'] + extra + [os.path.join(root, subp) if subp else root])
            recs.append(rec(s, namer, 'verify', subp, '', ob))
        # update on copies: whole tree and sub-directory, every profile, odd hash names sometimes
        for k, (subp, prof) in enumerate([('', 'default'), (sub, 'default'), ('', 'ebuild'), (sub, 'old-ebuild'), ('', 'old-ebuild')]):
            cp = os.path.join(base, 'u%d' % k)
            copy_tree(root, cp)
            hashes = rng.choice(['SHA256', 'SHA1 SHA512', 'FOO', 'WHIRLPOOL', 'SHA256 BOGUS', 'MD5'])
            argv = ['update', '--hashes', hashes]
            if prof != 'default':
                argv += ['-p', prof]
            if rng.random() < 0.3:
                argv += ['-c', str(rng.choice([0, 100, 100000]))]
            if rng.random() < 0.2:
                argv += ['-f']
            if rng.random() < 0.2 and subp == '':
                argv += ['--incremental'] if rng.random() < 0.5 else ['--timestamp']
            argv.append(os.path.join(cp, subp) if subp else cp)
            ob = gem.run_cli(argv)
            recs.append(rec(s, namer, 'update', subp, prof, ob))
            shutil.rmtree(cp, ignore_errors=True)
        # create on a copy without the top-level Manifest (sub-Manifests stay: unregistered ones)
        for k, prof in enumerate(['default', 'ebuild', 'old-ebuild']):
            cp = os.path.join(base, 'c%d' % k)
            copy_tree(root, cp)
            try:
                os.unlink(os.path.join(cp, 'Manifest'))
            except OSError:
                pass
            argv = ['create', '-p', prof] + (['--hashes', 'SHA256'] if prof == 'default' else []) + [cp]
            ob = gem.run_cli(argv)
            recs.append(rec(s, namer, 'create', '', prof, ob))
            shutil.rmtree(cp, ignore_errors=True)
        return recs
    finally:
        shutil.rmtree(base, ignore_errors=True)


def text_trees(args):
    """C09's texts (grammar cases and near-valid lines) as the top-level Manifest of a small tree"""
    seed, n = args
    from . import gem
    rng = random.Random('outtext-%d' % seed)
    base = tlc.scratch_dir('vot')
    recs = []
    try:
        cases = list(drv_entry.all_cases(3))
        for k in range(n):
            root = os.path.join(base, 't%d' % k)
            os.mkdir(root)
            with open(os.path.join(root, 'a'), 'wb') as f:
                f.write(b'abc')
            lines = ['DATA a 3 SHA1 a9993e364706816aba3e25717850c26c9cd0d89d']
            for _ in range(rng.randrange(1, 3)):
                tag, shapes = rng.choice(cases)
                t = tag if tag != 'UNKNOWN' else rng.choice(drv_entry.UNKNOWN_TAGS)
                lines.append(' '.join([t] + [rng.choice(drv_entry.SHAPES[s]) for s in shapes]))
            rng.shuffle(lines)
            with open(os.path.join(root, 'Manifest'), 'wb') as f:
                f.write(('\n'.join(lines) + '\n').encode('utf8', 'surrogateescape'))
            namer = fm.Namer()
            s = fm.project(root, 'Manifest', namer=namer)
            for cmd, argv in (('verify', ['verify', '-P', root]), ('update', ['update', '--hashes', 'SHA1', root]),
                              ('update', ['update', '-p', 'old-ebuild', root])):
                ob = gem.run_cli(argv)
                end = ob['end']
                if end == 'ok' and ob.get('status') == 1:
                    end = 'fail'
                recs.append({'s': s, 'cmd': cmd, 'sub': [], 'profile': '', 'end': end, 'exc': ob['exc'] or '',
                             'status': ob.get('status') if isinstance(ob.get('status'), int) else -1, 'cli': True,
                             'meta': {'seed': seed, 'k': k, 'lines': lines, 'tb': ob.get('tb', '')}})
            shutil.rmtree(root, ignore_errors=True)
    finally:
        shutil.rmtree(base, ignore_errors=True)
    return recs
