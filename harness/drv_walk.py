"""C16 driver: directory graphs with symlinks (self, parent, ancestor, sibling, mutual pairs,
chains), IGNORE on an edge, a second file system reached through a symlink; verification, update
and the unregistered-Manifest scan under a watchdog."""
import os
import random
import shutil
import signal

from . import fsmodel as fm
from . import tlc


class _Timeout(Exception):
    pass


def _alarm(signum, frame):
    raise _Timeout()


def have_second_fs():
    try:
        return os.path.isdir('/dev/shm') and os.stat('/dev/shm').st_dev != os.stat('/tmp').st_dev
    except OSError:
        return False


def one_graph(args):
    seed, idx, o = args
    from . import gem
    rng = random.Random('walk-%d-%d' % (seed, idx))
    root = tmp_dir('/tmp', 'vw')
    shm = tmp_dir('/dev/shm', 'vwx') if have_second_fs() else None
    recs = []
    try:
        n = rng.randrange(2, 7)
        nf = rng.choice([0, 0, 1, 2]) if shm else 0
        ids = list(range(1, n + 1))
        parent = {1: 0}
        path = {1: ''}
        names = ['a', 'b', 'c d', 'e', 'ż', 'g']
        # sometimes one directory is hidden (dot name): it and everything reached only through it is not walked
        # - by none of the three walkers - whatever links it holds
        hidden = rng.choice(ids[1:]) if len(ids) > 1 and rng.random() < 0.3 else None
        for d in ids[1:]:
            p = rng.choice([x for x in ids if x < d])
            parent[d] = p
            path[d] = (path[p] + '/' if path[p] else '') + ('.h%d' % d if d == hidden else names[d - 1])
        foreign = list(range(n + 1, n + nf + 1))
        real = {}
        for d in ids:
            real[d] = os.path.join(root, path[d]) if path[d] else root
            os.makedirs(real[d], exist_ok=True)
        for d in foreign:
            pf = [x for x in foreign if x < d]
            if pf and rng.random() < 0.4:
                parent[d] = rng.choice(pf)
                real[d] = os.path.join(real[parent[d]], 'fd%d' % d)
            else:
                parent[d] = 0
                real[d] = os.path.join(shm, 'fd%d' % d)
            os.makedirs(real[d], exist_ok=True)
        alld = ids + foreign
        for d in alld:
            with open(os.path.join(real[d], 'f'), 'wb') as f:
                f.write(b'data%d' % d)
        edges = set((parent[d], d) for d in alld if parent[d] != 0)
        links = []
        for _ in range(rng.choice([1, 1, 2, 2, 3])):
            a, b = rng.choice(alld), rng.choice(alld)
            kind = rng.random()
            if kind < 0.25:
                b = a                                   # self
            elif kind < 0.45 and parent.get(a):
                b = parent[a]                           # parent
            elif kind < 0.6 and foreign and a in ids:
                b = rng.choice(foreign)                 # into the second file system
            lname = 'ln%d' % len(links)
            lp = os.path.join(real[a], lname)
            if os.path.lexists(lp):
                continue
            os.symlink(real[b], lp)
            links.append((a, b, lname))
            edges.add((a, b))
        # an alias next to its target whose name begins with the target's name (lib64 -> lib): no loop
        cands = [b for b in ids[1:] if any(parent[d] == b for d in ids) and b != hidden]
        if cands and rng.random() < 0.3:
            b = rng.choice(cands)
            a = parent[b]
            lname = os.path.basename(path[b]) + rng.choice(['64', '-compat', '.d'])
            lp = os.path.join(real[a], lname)
            if not os.path.lexists(lp):
                os.symlink(real[b], lp)
                links.append((a, b, lname))
                edges.add((a, b))
        def under_hidden(d):
            x = d
            while x:
                if x == hidden:
                    return True
                x = parent.get(x, 0)
            return False
        # reachability through a link (for the IGNORE restriction)
        def logical_paths_unique(src):
            # src must be a main-tree dir that no link can reach (neither it nor an ancestor of it)
            tgt = set(b for _, b, _ in links)
            x = src
            while x:
                if x in tgt:
                    return False
                x = parent.get(x, 0)
            return src in ids
        ignored = None
        if rng.random() < 0.4:
            cands = []
            for (a, b) in sorted(edges):
                if not logical_paths_unique(a):
                    continue
                for l in links:
                    if (l[0], l[1]) == (a, b):
                        cands.append((a, b, (path[a] + '/' if path[a] else '') + l[2]))
                if parent.get(b) == a and b in ids:
                    # a tree edge that is not also a link edge
                    if not any((l[0], l[1]) == (a, b) for l in links):
                        cands.append((a, b, path[b]))
            if cands:
                ignored = rng.choice(cands)
                # several edges a->b (tree + link) would both need pruning: only do it when unique
                if sum(1 for l in links if (l[0], l[1]) == ignored[:2]) + (1 if parent.get(ignored[1]) == ignored[0] else 0) > 1:
                    ignored = None
        eff_edges = set(edges)

        if hidden and not any((l[0], l[1]) == (parent[hidden], hidden) for l in links):
            # (a link from its parent reaches it under another, visible name)
            eff_edges.discard((parent[hidden], hidden))
        ents = [fm.make_entry('DATA', (path[d] + '/' if path[d] else '') + 'f', b'data%d' % d, ['SHA1']) for d in ids
                if not under_hidden(d)]
        if ignored:
            eff_edges.discard(ignored[:2])
            ents = [e for e in ents if not (e['path'] == ignored[2] + '/f' or e['path'].startswith(ignored[2] + '/'))]
            ents.append({'tag': 'IGNORE', 'path': ignored[2], 'size': 0, 'ck': {}})
        # a symlink to a regular FILE on the second file system, listed or not: in one-file-system mode it is
        # a file on a different device (verification and update; the Manifest scan does not look at files).
        # Modelled as one more foreign leaf node below the directory holding the link.
        flink = None
        if shm and rng.random() < 0.3:
            a = rng.choice(ids)
            with open(os.path.join(shm, 'ff.txt'), 'wb') as f:
                f.write(b'foreign file')
            lp = os.path.join(real[a], 'ffl')
            if not os.path.lexists(lp):
                os.symlink(os.path.join(shm, 'ff.txt'), lp)
                rel = (path[a] + '/' if path[a] else '') + 'ffl'
                # (not listed when it lies in the hidden directory: a LISTED file is looked at wherever it is)
                listed = rng.random() < 0.5 and not under_hidden(a)
                under_ignored = ignored is not None and (rel == ignored[2] or rel.startswith(ignored[2] + '/'))
                if listed and not under_ignored:
                    ents.append(fm.make_entry('DATA', rel, b'foreign file', ['SHA1']))
                flink = (a, max(alld) + 1, listed)
        # IGNORE on everything that lies BEYOND a link leading back to an ancestor (path(a)/link/<child>): the
        # link itself is not under an IGNOREd path, so the loop has to be reported all the same - also
        # when the ancestor is the top directory
        beyond = None
        if not ignored and rng.random() < 0.35:
            def is_anc(b, a):
                x = a
                while x:
                    if x == b:
                        return True
                    x = parent.get(x, 0)
                return False
            loops = [l for l in links if l[0] in ids and l[1] in ids and is_anc(l[1], l[0])] \
                if len(links) == 1 else []
            if loops:
                a, b, lname = rng.choice(loops)
                lpath = (path[a] + '/' if path[a] else '') + lname
                for x in sorted(os.listdir(real[b])):
                    if os.path.isdir(os.path.join(real[b], x)):
                        ents.append({'tag': 'IGNORE', 'path': lpath + '/' + x, 'size': 0, 'ck': {}})
                beyond = lpath
        with open(os.path.join(root, 'Manifest'), 'wb') as f:
            f.write(fm.manifest_bytes(ents))
        # a Manifest nobody references yet in one of the directories: update and scan adopt it on their way -
        # the boundaries of the file system stay where they are
        unreg = None
        if len(ids) > 1 and rng.random() < 0.4:
            d = rng.choice(ids[1:])
            with open(os.path.join(real[d], 'Manifest'), 'wb') as f:
                f.write(fm.manifest_bytes([fm.make_entry('DATA', 'f', b'data%d' % d, ['SHA1'])]))
            unreg = path[d]
        # a file symlink NAMED Manifest (referenced by nobody) onto the second file system: in one-file-system
        # mode the scan may not read it any more than the walks may record it
        mflink = None
        if shm and len(ids) > 1 and not unreg and rng.random() < 0.25:
            d = rng.choice(ids[1:])
            lp = os.path.join(real[d], 'Manifest')
            if not os.path.lexists(lp) and not under_hidden(d) and not (
                    ignored and (path[d] == ignored[2] or path[d].startswith(ignored[2] + '/'))):
                with open(os.path.join(shm, 'FManifest'), 'wb') as f:
                    f.write(b'IGNORE whatever\n')
                os.symlink(os.path.join(shm, 'FManifest'), lp)
                mflink = (d, max(alld) + 2)
        base = {'dirs': alld, 'edges': [list(e) for e in sorted(eff_edges)], 'start': 1, 'foreign': foreign,
                'meta': {'seed': seed, 'idx': idx, 'links': links, 'ignored': ignored, 'beyond': beyond, 'flink': flink, 'hidden': hidden, 'paths': path, 'unreg': unreg, 'mflink': mflink}}
        old = signal.signal(signal.SIGALRM, _alarm)
        try:
            for op in ('verify', 'update', 'scan'):
                for onefs in ((False, True) if (foreign or flink or mflink) else (False,)):
                    obs, exc = run_op(gem, root, op, onefs)
                    rec = dict(base, op=op, onefs=onefs, obs=obs, exc=exc)
                    if mflink:
                        rec['dirs'] = rec['dirs'] + [mflink[1]]
                        rec['edges'] = rec['edges'] + [[mflink[0], mflink[1]]]
                        rec['foreign'] = rec['foreign'] + [mflink[1]]
                    if flink and op in ('verify', 'update'):
                        rec['dirs'] = rec['dirs'] + [flink[1]]
                        rec['edges'] = rec['edges'] + [[flink[0], flink[1]]]
                        rec['foreign'] = rec['foreign'] + [flink[1]]
                    recs.append(rec)
        finally:
            signal.alarm(0)
            signal.signal(signal.SIGALRM, old)
        return recs
    finally:
        shutil.rmtree(root, ignore_errors=True)
        if shm:
            shutil.rmtree(shm, ignore_errors=True)


def tmp_dir(base, prefix):
    import tempfile
    return tempfile.mkdtemp(prefix=prefix + '.', dir=base)


def run_op(gem, root, op, onefs):
    E = gem.gemato.exceptions
    signal.alarm(20)
    # directory listings as the OS gives them or sorted by name (then `lib` is listed right before `lib64`)
    from . import drv_update
    order = random.Random(root + op).choice([None, 'asc', 'asc', 'desc'])
    real_scandir = os.scandir
    if order:
        os.scandir = lambda p='.', _r=real_scandir, _v=(order == 'desc'): drv_update.OrderedScandir(_r, p, _v)
    try:
        return _run_op(gem, root, op, onefs, E)
    finally:
        os.scandir = real_scandir
        signal.alarm(0)


def _run_op(gem, root, op, onefs, E):
    try:
        ld = gem.loader(os.path.join(root, 'Manifest'), allow_xdev=not onefs, hashes=['SHA1'])
        if op == 'verify':
            ld.assert_directory_verifies('', fail_handler=lambda e: True)
        elif op == 'update':
            ld.update_entries_for_directory('')
        else:
            ld.load_unregistered_manifests('')
        return 'completes', ''
    except _Timeout:
        return 'timeout', ''
    except E.ManifestSymlinkLoop:
        return 'loop', ''
    except E.ManifestCrossDevice:
        return 'xdev', ''
    except RecursionError:
        return 'timeout', 'RecursionError'
    except Exception as e:  # noqa
        return 'other', type(e).__name__ + ':' + str(e)[:80]
    finally:
        signal.alarm(0)
