"""C04 drivers: line-class sequences concretised and loaded by the real ManifestFile.load
(direction 1: all sequences up to a bound, the same space Framing.tla explores), and textual
mutations of Manifests genuinely signed by gpg (direction 2)."""
import io
import itertools
import random
import re

CLASSES = ['BS', 'BG', 'EN', 'AR', 'BL', 'HT', 'EV', 'DE', 'DA', 'JK', 'DB', 'NL']
VARIANTS = {
    'BS': ['-----BEGIN PGP SIGNED MESSAGE-----'],
    'BG': ['-----BEGIN PGP SIGNATURE-----'],
    'EN': ['-----END PGP SIGNATURE-----'],
    'AR': ['-----BEGIN PGP MESSAGE-----', '-----BEGIN PGP SIGNED MESSAGE----- ',
           '-----END PGP SIGNATURE-----\t', '-----BEGIN PGP SIGNATURE----- ', '----------',
           '-----BEGIN PGP SIGNED MESSAGE-----\r'],
    'BL': ['', ' ', '\t', ' \t '],
    'NL': ['\x00', ' \x00', '\x00 \x00', '\x00\t'],
    'HT': ['Hash: SHA512', 'iQEzBAEBCAAdFiEEgeEsFr2NzWC+GAhFE2iA5yp7E4QFAloCx+YACgkQE2iA5yp7',
           '=Zupm', 'Version: GnuPG v2', 'NotDashEscaped: You need GnuPG to verify this message',
           'Comment: DATA evil 1'],
    'EV': ['DATA f{i} 1 SHA1 aa', 'IGNORE f{i}', 'MISC f{i} 0', ' DATA f{i} 2', 'DATA f{i} 3 \t',
           'DIST f{i} 4 MD5 00'],
    'DE': ['- DATA f{i} 1', '- IGNORE f{i}', '- \tMANIFEST f{i} 9 SHA1 ff'],
    'DA': ['- -----BEGIN PGP SIGNATURE-----', '- -----END PGP SIGNATURE-----',
           '- -----BEGIN PGP SIGNED MESSAGE-----', '- -----FOO-----'],
    'DB': ['- ', '-  ', '- \t'],
    'JK': ['garbage', 'data f{i} 1', 'DATA', '-DATA f{i} 1', '--', '-', 'TIMESTAMP yesterday',
           'DATA f{i} x',
           # escaped twice: ONE escape is undone, what remains is no entry
           '- - DATA f{i} 1', '- - IGNORE f{i}', '- - - DATA f{i} 1'],
}
ARMOR_RE = re.compile(r'^-----.*-----\s*$', re.S)


def classify_line(line):
    """Class of a concrete line (without its newline) -- the abstraction function for texts."""
    if line == '-----BEGIN PGP SIGNED MESSAGE-----':
        return 'BS'
    if line == '-----BEGIN PGP SIGNATURE-----':
        return 'BG'
    if line == '-----END PGP SIGNATURE-----':
        return 'EN'
    if line.startswith('-----') and line.rstrip().endswith('-----'):
        return 'AR'
    if not line.strip():
        return 'BL'
    if '\x00' in line and not line.strip(' \t\r\x00'):
        return 'NL'     # NUL bytes and blanks only: blank for gpg, junk for str.split()
    if line.startswith('- '):
        rest = line[2:]
        if rest.startswith('-----') and rest.rstrip().endswith('-----'):
            return 'DA'
        if not rest.strip():
            return 'DB'     # dash-escaped blank: blank inside signed text, junk elsewhere
        return 'DE' if _is_entry(rest) else 'JK'   # dash-escaped junk behaves like junk everywhere
    return 'EV' if _is_entry(line) else 'JK'


def _is_entry(line):
    from . import fsmodel as fm
    pm = fm.parse_manifest_text(line + '\n')
    return pm['ok'] and len(pm['entries']) == 1


class Recorder:
    """stands in for an OpenPGP environment; records the text handed to verification.  With
    `real` set, the text is passed on to that environment (real gpg)."""

    def __init__(self, real=None):
        self.texts = []
        self.real = real

    def verify_file(self, f):
        t = f.read()
        self.texts.append(t)
        if self.real is not None:
            return self.real.verify_file(io.StringIO(t))
        return 'SIGDATA'


def load_obs(text, lines, nl, verify, mf=None, env=None):
    """Load `text` with the real parser; -> obs dict.  lines: list of concrete lines (no newline).
    epaths: paths of the loaded entries in order ('' for TIMESTAMP)."""
    from . import gem
    m = mf or gem.gemato.manifest.ManifestFile()
    rec = Recorder(real=env)
    kind = None
    try:
        m.load(io.StringIO(text), verify_openpgp=verify, openpgp_env=rec)
    except gem.gemato.exceptions.ManifestUnsignedData:
        kind = 'unsigned'
    except gem.gemato.exceptions.ManifestSyntaxError:
        kind = 'syntax'
    except (gem.gemato.exceptions.OpenPGPVerificationFailure,
            gem.gemato.exceptions.OpenPGPUnknownSigFailure):
        kind = 'sigfail'
    except gem.GematoException as e:
        kind = 'other'
    except Exception as e:   # noqa
        kind = 'internal'
    epaths, gpg, esig = [], [0, 0], []
    if kind is None:
        kind = 'signed' if m.openpgp_signed else 'plain'
        for e in m.entries:
            epaths.append(getattr(e, 'path', '') or '')
            esig.append('%s|%s|%s|%s' % (e.tag, getattr(e, 'path', ''), getattr(e, 'size', ''),
                                         ','.join('%s=%s' % kv for kv in sorted(getattr(e, 'checksums', {}).items()))))
        if bool(rec.texts) != bool(m.openpgp_signed):
            kind = 'other'
        if rec.texts:
            gpg = find_range(rec.texts[0], lines, nl)
    return {'kind': kind, 'epaths': epaths, 'gpg': gpg, 'esig': esig}, m


def find_range(t, lines, nl):
    for b in range(len(lines)):
        for e in range(b, len(lines)):
            cand = ''.join(l + '\n' for l in lines[b:e + 1])
            if not nl and e == len(lines) - 1:
                cand = cand[:-1]
            if cand == t:
                return [b + 1, e + 1]
    return [-1, -1]


def line_path(line):
    """path of the entry on a (possibly dash-escaped) line, '' if it is not an entry"""
    from . import fsmodel as fm
    if line.startswith('- '):
        line = line[2:]
    pm = fm.parse_manifest_text(line + '\n')
    if pm['ok'] and len(pm['entries']) == 1:
        return pm['entries'][0]['path']
    return ''


NOAUTH = {'checked': False, 'good': False, 'epaths': [], 'esig': []}


def seq_records(args):
    """(list of class sequences, seed) -> records"""
    seqs, seed = args
    rng = random.Random(seed)
    from . import gem
    mf = gem.gemato.manifest.ManifestFile()      # one object reused: state must reset between loads
    recs = []
    for cls in seqs:
        lines = [rng.choice(VARIANTS[c]).replace('{i}', str(k + 1)) for k, c in enumerate(cls)]
        nl = rng.random() < 0.8 or not lines
        text = ''.join(l + '\n' for l in lines)
        if not nl:
            text = text[:-1]
        acls = [classify_line(l) for l in lines]
        lenient = False
        if not nl and lines and acls[-1] in ('BS', 'BG', 'EN'):
            lenient = acls[-1] == 'EN'
            acls[-1] = 'AR'
        for verify in (True, False):
            obs, mf = load_obs(text, lines, nl, verify, mf)
            recs.append({'in': acls, 'paths': [line_path(l) for l in lines], 'verify': verify,
                         'lenient': lenient, 'obs': obs, 'auth': NOAUTH, 'text': text})
    return recs


def all_sequences(maxlen):
    for n in range(0, maxlen + 1):
        for t in itertools.product(CLASSES, repeat=n):
            yield list(t)


# ---------------------------------------------------------------------------------------------
# direction 2: Manifests genuinely signed by gpg, then mutated textually

def random_manifest_text(rng, n=None):
    n = n if n is not None else rng.randrange(1, 6)
    lines = []
    for k in range(n):
        tag = rng.choice(['DATA', 'DATA', 'MISC', 'IGNORE', 'DIST', 'MANIFEST'])
        name = rng.choice(['a', 'b/c', 'x\\x20y', 'zażółć', 'e-1.ebuild']) + str(k)
        if tag == 'IGNORE':
            lines.append('IGNORE ' + name)
        else:
            if tag == 'DIST':
                name = name.replace('/', '_')
            lines.append('%s %s %d SHA256 %064x' % (tag, name, rng.randrange(1000), rng.getrandbits(200)))
    if rng.random() < 0.3:
        lines.append('TIMESTAMP 2020-01-02T03:04:05Z')
    if rng.random() < 0.35:
        # a blank line among the entries (legal, and it is part of what gets signed)
        lines.insert(rng.randrange(1, len(lines) + 1), rng.choice(['', '', ' ']))
    return ''.join(l + '\n' for l in lines)


INSERT_POOL = ['', ' ', 'DATA injected 1 SHA1 00', 'IGNORE injected', 'garbage', 'Hash: SHA1',
               'NotDashEscaped: You need GnuPG to verify this message',
               '-----BEGIN PGP SIGNED MESSAGE-----', '-----BEGIN PGP SIGNATURE-----',
               '-----END PGP SIGNATURE-----', '-----BEGIN PGP MESSAGE-----', '- DATA dashed 2',
               '- -----BEGIN PGP SIGNATURE-----', '- ', 'Comment: x']


def mutate_text(rng, text, other):
    lines = text.split('\n')
    if lines and lines[-1] == '':
        lines.pop()
    k = rng.choice(['insert', 'delete', 'dup', 'move', 'ws_tail', 'ws_head', 'crlf_one', 'crlf_all',
                    'cr_mid', 'dash_add', 'dash_del', 'concat', 'concat_blank', 'flip_body',
                    'flip_sig', 'none', 'blank_around', 'no_final_nl', 'swap', 'longline', 'longline', 'nul_tail', 'nul_tail', 'nul_sep', 'nul_sep', 'hdr_long', 'hdr_long'])
    nl = True
    i = rng.randrange(len(lines)) if lines else 0
    if k == 'insert':
        lines.insert(rng.randrange(len(lines) + 1), rng.choice(INSERT_POOL))
    elif k == 'delete' and lines:
        lines.pop(i)
    elif k == 'dup' and lines:
        lines.insert(i, lines[i])
    elif k == 'move' and lines:
        l = lines.pop(i)
        lines.insert(rng.randrange(len(lines) + 1), l)
    elif k == 'swap' and len(lines) > 1:
        j = rng.randrange(len(lines))
        lines[i], lines[j] = lines[j], lines[i]
    elif k == 'ws_tail' and lines:
        lines[i] = lines[i] + rng.choice([' ', '\t', '  '])
    elif k == 'nul_tail' and lines:
        # gpg strips trailing NUL bytes of a cleartext line along with the trailing blanks (its strchr()
        # test matches the terminator), str.split() keeps them inside the last word
        tail = rng.choice(['\x00', '\x00\x00 ', ' \x00', '\x00\t\x00'])
        lines[i] = (lines[i].rstrip(' \t') if rng.random() < 0.5 else lines[i]) + tail
    elif k == 'hdr_long' and lines:
        # gpg skips armor-header lines of 20000 bytes or more without a word: a blank one (the end of the
        # headers for everybody else) followed by an entry padded to that length, then the real blank line
        try:
            b = lines.index('-----BEGIN PGP SIGNED MESSAGE-----')
            j = next(x for x in range(b + 1, len(lines)) if not lines[x].strip())
            evil = 'DATA evil.bin 0'
            lines[j:j] = [' ' * 20000, evil + ' ' * (20000 - len(evil))]
        except (ValueError, StopIteration):
            pass
    elif k == 'nul_sep' and lines:
        # the blank line that ends the armor headers replaced by a line holding NUL (and blanks) only: blank
        # for gpg, which drops NUL with the trailing white space - not for str.strip()
        try:
            b = lines.index('-----BEGIN PGP SIGNED MESSAGE-----')
            j = next(x for x in range(b + 1, len(lines)) if not lines[x].strip())
            lines[j] = rng.choice(['\x00', ' \x00', '\x00 \x00', '\x00\t'])
        except (ValueError, StopIteration):
            pass
    elif k == 'ws_head' and lines:
        lines[i] = rng.choice([' ', '\t']) + lines[i]
    elif k == 'crlf_one' and lines:
        lines[i] = lines[i] + '\r'
    elif k == 'crlf_all':
        lines = [l + '\r' for l in lines]
    elif k == 'cr_mid' and lines and len(lines[i]) > 2:
        p = rng.randrange(1, len(lines[i]))
        lines[i] = lines[i][:p] + '\r' + lines[i][p:]
    elif k == 'dash_add' and lines:
        lines[i] = '- ' + lines[i]
    elif k == 'dash_del':
        c = [j for j, l in enumerate(lines) if l.startswith('- ')]
        if c:
            j = rng.choice(c)
            lines[j] = lines[j][2:]
    elif k == 'concat':
        lines = lines + other.split('\n')[:-1]
    elif k == 'concat_blank':
        lines = lines + [''] + other.split('\n')[:-1]
    elif k in ('flip_body', 'flip_sig') and lines:
        try:
            g = lines.index('-----BEGIN PGP SIGNATURE-----')
        except ValueError:
            g = len(lines)
        rng_lines = [j for j in range(len(lines)) if (j < g) == (k == 'flip_body') and len(lines[j]) > 3
                     and not lines[j].startswith('-----')]
        if rng_lines:
            j = rng.choice(rng_lines)
            p = rng.randrange(len(lines[j]))
            ch = lines[j][p]
            lines[j] = lines[j][:p] + ('A' if ch != 'A' else 'B') + lines[j][p + 1:]
    elif k == 'longline':
        # gpg truncates cleartext lines beyond 20000 bytes when verifying (and trailing blanks are not
        # signed): text appended to a signed line behind that column is NOT authenticated
        try:
            g = lines.index('-----BEGIN PGP SIGNATURE-----')
        except ValueError:
            g = len(lines)
        body = [j for j in range(g) if j > 2 and not lines[j].startswith('-----')]
        if body:
            j = rng.choice(body)
            pad = ' ' * (20010 - len(lines[j]))
            if lines[j].strip():
                lines[j] = lines[j] + pad + 'SHA512 ' + 'e' * 128 + ' BLAKE2B ' + 'f' * 128
            else:
                lines[j] = pad + 'DATA evil 0'
    elif k == 'blank_around':
        lines = [''] * rng.randrange(0, 3) + lines + [' '] * rng.randrange(0, 3)
    elif k == 'no_final_nl':
        nl = False
    out = ''.join(l + '\n' for l in lines)
    if not nl:
        out = out[:-1]
    return out, k


_WORKER_HOME = {}


def _worker_home(path):
    from . import gpgenv
    import atexit
    h = _WORKER_HOME.get(path)
    if h is None:
        h = gpgenv.Home(path).clone()
        _WORKER_HOME[path] = h
        atexit.register(h.close)
    return h


def signed_records(args):
    """(list of (text, mutation-kind), gnupg home path) -> records"""
    items, homepath = args
    import os
    from . import gem, fsmodel as fm
    h = _worker_home(homepath)
    old = os.environ.get('GNUPGHOME')
    os.environ['GNUPGHOME'] = h.path
    recs = []
    try:
        env = gem.gemato.openpgp.SystemGPGEnvironment()
        for text, kind in items:
            nl = text.endswith('\n') or text == ''
            lines = text.split('\n')
            if nl and lines:
                lines.pop()
            acls = [classify_line(l) for l in lines]
            # a line too long for gpg inside the signed body is malformed (it cannot be authenticated)
            st = 0
            for j, c in enumerate(acls):
                if st == 0 and c == 'BS':
                    st = 1
                elif st == 1 and c == 'BL':
                    st = 2
                elif st == 1 and '\x00' in lines[j]:
                    acls[j] = 'NL'      # any armor-header line holding NUL is refused like a NUL-only one
                elif st == 2 and c == 'BG':
                    st = 3
                elif st == 2 and len(lines[j].encode('utf8', 'surrogatepass')) > 16384:
                    acls[j] = 'JK'
                elif st == 2 and '\x00' in lines[j]:
                    # so is a line holding a NUL byte (gpg drops trailing ones from what it authenticates)
                    acls[j] = 'JK'
            lenient = False
            if not nl and lines and acls[-1] in ('BS', 'BG', 'EN'):
                lenient = acls[-1] == 'EN'
                acls[-1] = 'AR'
            if any('\r' in l.rstrip('\r') for l in lines):
                lenient = True          # CR inside a line: line structure is not comparable
            obs, _ = load_obs(text, lines, nl, True, env=env)
            auth = dict(NOAUTH)
            if obs['kind'] in ('signed', 'sigfail'):
                good, clear = h.authenticated_cleartext(text)
                ap = []
                if good:
                    pm = fm.parse_manifest_text(clear if clear.endswith('\n') or not clear else clear + '\n')
                    ap = [e['path'] if e['tag'] != 'AUX' else e['path'] for e in pm['entries']] \
                        if pm['ok'] else ['<unparsable>']
                    asig = ['%s|%s|%s|%s' % (e['tag'], e['path'] if e['tag'] != 'TIMESTAMP' else '',
                                             e['size'] if e['tag'] not in ('IGNORE', 'TIMESTAMP') else '',
                                             ','.join('%s=%s' % kv for kv in sorted(e['ck'].items())))
                            for e in pm['entries']] if pm['ok'] else ['<unparsable>']
                auth = {'checked': True, 'good': bool(good), 'epaths': ap, 'esig': asig if good else []}
            recs.append({'in': acls, 'paths': [line_path(l) for l in lines], 'verify': True,
                         'lenient': lenient, 'obs': obs, 'auth': auth, 'text': text, 'mut': kind})
    finally:
        if old is None:
            os.environ.pop('GNUPGHOME', None)
        else:
            os.environ['GNUPGHOME'] = old
    return recs


def make_signed_corpus(seed, nbase, nmut):
    """-> (home, items) ; caller closes home"""
    from . import gpgenv
    rng = random.Random('c04-%d' % seed)
    home = gpgenv.Home()
    home.genkey('C04 signer <c04@example.com>')
    bases = [home.clearsign(random_manifest_text(rng)) for _ in range(nbase)]
    home.kill()
    items = [(b, 'base') for b in bases]
    for _ in range(nmut):
        b = rng.choice(bases)
        t, k = mutate_text(rng, b, rng.choice(bases))
        if rng.random() < 0.25:
            t, k2 = mutate_text(rng, t, rng.choice(bases))
            k = k + '+' + k2
        items.append((t, k))
    return home, items
