"""C09 / C08 drivers: Manifest line grammar cases from EntryLine.tla concretised and loaded by
the real parser; byte-level mutations of valid Manifests; escape forms over their full range."""
import datetime
import io
import itertools
import random
import re

from . import fsmodel as fm

KNOWN = ('DATA', 'MANIFEST', 'MISC', 'EBUILD', 'AUX', 'DIST', 'IGNORE', 'TIMESTAMP')
UNKNOWN_TAGS = ['FOO', 'data', 'Data', '-', 'DATAX', 'TIMESTAMPS', 'IGNOREX', '\u00a0DATA'.strip(), 'D']

SHAPES = {
    'name':   ['a', 'foo.txt', 'ü', 'a\\x20b', 'x\\u00e9', 'y\\U0001F600', 'abc', '1.5', '1e3', '0x10',
               '-1', '-5', '2017-10-22T18:06:41Zx', 'x2017-10-22T18:06:41Z', '2017-10-22T18:06:41',
               '2017-10-22T18:06:41+02:00', '20171022T180641Z', '2017-13-01T00:00:00Z',
               '2017-10-22T18:06:41ZZ', '0000-01-01T00:00:00Z', 'SHA1', 'tes\\x5Ct', '1,000', '١٢x', '.',
               # digit-like characters that are no decimal digits (str.isdigit() says yes, int() says no)
               '\u00b2', '\u2460\u2461', '4\u2080', '\u2776', '1\u00b3'],
    'slash':  ['a/b', 'a\\x2Fb', 'dir/sub/f', 'a/', 'a\\u002fb'],
    'num':    ['0', '12', '00012', '18446744073709551616', '4294967296'],
    'numlen': ['+1', '1_0', '-0', '\u0661\u0662', '0_0', '+0'],
    'ts':     ['2017-10-22T18:06:41Z', '1999-12-31T23:59:59Z', '2024-02-29T00:00:00Z'],
    'tslen':  ['2017-1-2T3:4:5Z', '2017-10-22T18:06:4Z', '\u0662\u0660\u0661\u0667-10-22T18:06:41Z'],
    'surr':   ['\\uD800', 'a\\uDFFFb', '\\U0000DC80'],
    'abs':    ['/a', '/', '//x', '/etc/passwd'],
    'escabs': ['\\x2Fetc/passwd', '\\u002Fa', '\\U0000002Fa', '\\x2f'],
    'badesc': ['a\\b', 'tes\\', 'a\\x2', 'a\\xZZ', 'a\\u12', 'a\\U0001F60', 'a\\X41', '\\', 'a\\x', 'a\\u12G4',
               # hex digits are ASCII: other decimal digits (Arabic-Indic, fullwidth, Devanagari) make no escape
               '\\x\u06641', 'a\\x4\uff11', '\\u00\u0664\u0661', '\\U0000004\u0967', 'b\\x\uff14\uff11c'],
    'range':  ['\\U00110000', '\\UFFFFFFFF', 'a\\U7FFFFFFFb', '\\U00200000'],
}
SHAPE_NAMES = list(SHAPES)

_TS_CANON = re.compile(r'^[0-9]{4}-[0-9]{2}-[0-9]{2}T[0-9]{2}:[0-9]{2}:[0-9]{2}Z$')
_TS_LOOSE = re.compile(r'^\d{1,4}-\d{1,2}-\d{1,2}T\d{1,2}:\d{1,2}:\d{1,2}Z$', re.U)
_NUM_CANON = re.compile(r'^[0-9]+$')
_NUM_LOOSE = re.compile(r'^[+-]?[\d_]+$', re.U)
_NUM_NEG = re.compile(r'^-[\d_]*[^\W0_][\d_]*$', re.U)


def classify_field(s):
    """The harness's abstraction of one white-space separated field (independent of gemato)."""
    dec = fm.unescape(s)
    if dec is None or s.startswith('/') or dec.startswith('/') or dec == '':
        path = 'bad'
    elif any(0xD800 <= ord(c) <= 0xDFFF for c in dec):
        path = 'len'
    else:
        path = 'ok'
    slash = ('/' in dec) if dec is not None else ('/' in s)
    if _NUM_CANON.match(s):
        size = 'ok'
    elif _NUM_LOOSE.match(s):
        neg = False
        try:
            neg = int(s) < 0
            size = 'bad' if neg else 'len'
        except ValueError:
            size = 'len' if not s.startswith('-') else 'len'
            # int() refuses it although it looks numeric: either outcome acceptable
    else:
        size = 'bad'
    ts = 'bad'
    if _TS_CANON.match(s):
        try:
            datetime.datetime(int(s[0:4]), int(s[5:7]), int(s[8:10]), int(s[11:13]), int(s[14:16]),
                              int(s[17:19]))
            ts = 'ok'
        except ValueError:
            ts = 'bad'
    elif _TS_LOOSE.match(s):
        ts = 'len'
    return {'path': path, 'slash': bool(slash), 'size': size, 'ts': ts}


def classify_line(line):
    sl = line.strip().split()
    if not sl:
        return None
    tag = sl[0] if sl[0] in KNOWN else 'UNKNOWN'
    out = [tag]
    for k, f in enumerate(sl[1:]):
        c = dict(classify_field(f))
        c['w'] = sl[1:].index(f) + 1          # equal words get equal numbers
        out.append(c)
    return out


def load_kind(text, mf=None):
    from . import gem
    m = mf or gem.gemato.manifest.ManifestFile()
    try:
        m.load(io.StringIO(text), verify_openpgp=False)
    except gem.gemato.exceptions.ManifestUnsignedData:
        return {'kind': 'unsigned', 'n': 0, 'exc': ''}, m
    except gem.gemato.exceptions.ManifestSyntaxError:
        return {'kind': 'syntax', 'n': 0, 'exc': ''}, m
    except Exception as e:  # noqa
        return {'kind': 'internal', 'n': 0, 'exc': type(e).__name__}, m
    return {'kind': 'entry', 'n': len(m.entries), 'exc': ''}, m


def text_record(text, mf=None, meta=None, strict=False):
    lines = [l for l in text.split('\n')]
    cls = [c for c in (classify_line(l) for l in lines) if c is not None]
    # (dash-escaped lines are unescaped inside a signed block only: without any armor line in the text a
    # line starting with "- " is a line with the unknown tag "-")
    lenient = any(l.startswith('-----') for l in lines) or '\r' in text \
        or '\x0b' in text or '\x0c' in text or any(ord(c) in (0x1c, 0x1d, 0x1e, 0x85, 0x2028, 0x2029) for c in text)
    if strict:
        lenient = False
    obs, mf = load_kind(text, mf)
    return {'lines': cls, 'lenient': lenient, 'obs': {'kind': obs['kind'], 'n': obs['n']},
            'exc': obs['exc'], 'text': text}, mf


def grammar_records(args):
    """(list of (tag, [shape names]), seed) -> records; each case concretised several times"""
    cases, seed, reps = args
    rng = random.Random(seed)
    recs = []
    mf = None
    for tag, shapes in cases:
        for _ in range(reps):
            t = tag if tag != 'UNKNOWN' else rng.choice(UNKNOWN_TAGS)
            fields = [rng.choice(SHAPES[s]) for s in shapes]
            sep = rng.choice([' ', ' ', '  ', '\t'])
            line = sep.join([t] + fields)
            if rng.random() < 0.2:
                line = ' ' + line + ' '
            r, mf = text_record(line + ('\n' if rng.random() < 0.8 else ''), mf)
            recs.append(r)
    return recs


def cycling_records(args):
    """(cases with <= 2 fields, seed): for every field position, EVERY variant of that position's
    shape once (the other positions random), so that no single concrete spelling is left to luck"""
    cases, seed = args
    rng = random.Random(seed)
    recs = []
    mf = None
    for tag, shapes in cases:
        for pos in range(len(shapes)):
            for v in SHAPES[shapes[pos]]:
                t = tag if tag != 'UNKNOWN' else rng.choice(UNKNOWN_TAGS)
                fields = [rng.choice(SHAPES[s]) for s in shapes]
                fields[pos] = v
                r, mf = text_record(' '.join([t] + fields) + '\n', mf)
                recs.append(r)
    return recs


def all_cases(maxfields):
    tags = list(KNOWN) + ['UNKNOWN']
    for t in tags:
        for n in range(0, maxfields + 1):
            for fs in itertools.product(SHAPE_NAMES, repeat=n):
                yield (t, list(fs))


def near_valid_records(args):
    """systematic one-character edits of valid lines (insert/delete/replace at every position)"""
    seed, n = args
    rng = random.Random('nv-%d' % seed)
    bases = ['DATA a/b 12 SHA1 ab MD5 cd', 'TIMESTAMP 2017-10-22T18:06:41Z', 'IGNORE local/x',
             'DIST foo-1.tar.gz 100 SHA512 ee', 'AUX p.patch 3 SHA1 aa', 'MANIFEST d/Manifest 50 SHA256 bb',
             'MISC metadata.xml 0', 'EBUILD x-1.ebuild 7 BLAKE2B 00 SHA512 11', 'DATA a\\x20b 1',
             'DATA x\\u00A0y 2 SHA1 00', 'DATA z\\U0001F600 3']
    alphabet = list('aZ09/\\-+_.: \tTxuU') + ['\u00a0', '\u3000', '\x00', 'é', '\U0001F600', '\ud7ff']
    recs = []
    mf = None
    for _ in range(n):
        b = rng.choice(bases)
        k = rng.randrange(len(b) + 1)
        how = rng.choice(['ins', 'del', 'rep', 'dup_field', 'drop_field', 'twolines', 'prefix', 'dup_name', 'joined'])
        if how == 'joined':
            # two valid lines joined by a character that separates FIELDS for str.split() but is no line
            # break for a text file: one (usually malformed) line, never two entries
            sep = rng.choice(['\x0b', '\x0c', '\x1c', '\x1d', '\x1e', '\x85', '\u2028', '\u2029'])
            t = b + sep + rng.choice(bases)
            r, mf = text_record(t + '\n', mf, strict=True)
            recs.append(r)
            continue
        if how == 'prefix':
            # something in front of an otherwise valid line (dash-escape, quote, comment marks)
            t = rng.choice(['- ', '- ', '-- ', '+ ', '> ', '# ', '- - ', '-\t']) + b
        elif how == 'ins':
            t = b[:k] + rng.choice(alphabet) + b[k:]
        elif how == 'del' and k < len(b):
            t = b[:k] + b[k + 1:]
        elif how == 'rep' and k < len(b):
            t = b[:k] + rng.choice(alphabet) + b[k + 1:]
        elif how == 'dup_name' and len(b.split(' ')) >= 5 and (len(b.split(' ')) - 3) % 2 == 0:
            # a checksum name listed twice (same or another value; before or after the original pair)
            sl = b.split(' ')
            j = rng.randrange(3, len(sl), 2)
            pair = [sl[j], rng.choice([sl[j + 1], sl[j + 1][::-1], '00' * (len(sl[j + 1]) // 2)])]
            at = rng.randrange(3, len(sl) + 1, 2)
            t = ' '.join(sl[:at] + pair + sl[at:])
        elif how == 'dup_field':
            sl = b.split(' ')
            j = rng.randrange(len(sl))
            t = ' '.join(sl[:j + 1] + sl[j:])
        elif how == 'drop_field':
            sl = b.split(' ')
            sl.pop(rng.randrange(len(sl)))
            t = ' '.join(sl)
        else:
            t = b + '\n' + rng.choice(bases)
        r, mf = text_record(t + '\n', mf)
        recs.append(r)
    return recs
