"""C19 driver: `gemato create -p <profile>` (with explicit overrides) on generated repositories,
projection judged against the profile policy by role; then edits + `gemato update`."""
import os
import random
import shutil

from . import fsmodel as fm
from . import repogen
from . import tlc


def sorted_ok(m_entries):
    keys = [(e['tag'], '/'.join(e['p'])) for e in m_entries]
    return keys == sorted(keys)


def raw_sorted(root, mp):
    """is the Manifest file's entry order sorted by (tag, path)?  (harness reader)"""
    try:
        raw = open(os.path.join(root, mp), 'rb').read()
        pm = fm.parse_manifest_text(fm.decompress(raw, fm.compression_of(mp)).decode('utf8'))
    except Exception:  # noqa
        return True
    keys = []
    for e in pm['entries']:
        p = e['path'][6:] if e['tag'] == 'AUX' and False else e['path']
        keys.append((e['tag'], p))
    return keys == sorted(keys)


def _ordered_cli(rng, argv):
    """the CLI with directory listings as the OS gives them, or sorted by name ascending / descending (a
    directory whose name is a string prefix of its sibling's is then visited right before / after it)"""
    from . import gem, drv_update
    order = rng.choice(['asc', 'desc', None])
    real = os.scandir
    if order:
        os.scandir = lambda p='.', _r=real, _v=(order == 'desc'): drv_update.OrderedScandir(_r, p, _v)
    try:
        return gem.run_cli(argv)
    finally:
        os.scandir = real


def one_repo(args):
    seed, idx, o = args
    from . import gem
    rng = random.Random('profile-%d-%d' % (seed, idx))
    root = tlc.scratch_dir('vp')
    try:
        roles, files = repogen.build(rng, root, portable=False)
        profile = o.get('profile') or rng.choice(['ebuild', 'old-ebuild', 'ebuild', 'old-ebuild', 'default'])
        # the watermark counts BYTES of the uncompressed Manifest: a directory whose Manifest has fewer than 128
        # characters but at least 128 bytes (one file with a long non-ASCII name, short digests)
        wmwin = None
        if profile != 'default' and rng.random() < 0.15:
            for dname, role in (('eclass', 'eclass'), ('licenses', 'licenses')):
                if dname not in roles:
                    os.makedirs(os.path.join(root, dname), exist_ok=True)
                    roles[dname] = role
                    fname = dname + '/' + '\u30e9\u30a4\u30bb\u30f3\u30b9' * 2 + '\u30e9\u30a4' + rng.choice(['', 'x', 'xy'])
                    with open(os.path.join(root, fname), 'wb') as f:
                        f.write(b'multi-byte name')
                    files[fname] = b'multi-byte name'
                    wmwin = fname
                    break
        argv = ['create', '-p', profile]
        hashes = ['BLAKE2B', 'SHA512']
        sort = profile != 'default'
        wm = 128 if profile != 'default' else -1
        ov = rng.random()
        if wmwin:
            hashes = ['MD5', 'SHA1']
            argv += ['--hashes', 'MD5 SHA1']
            ov = 0.9
        elif profile == 'default' or ov < 0.25:
            hashes = rng.choice([['SHA256'], ['MD5', 'SHA1'], ['SHA3_256']])
            argv += ['--hashes', ' '.join(hashes)]
        if 0.2 < ov < 0.45:
            wm = rng.choice([0, 1, 64, 200, 100000])
            argv += ['--compress-watermark', str(wm)]
        fmt = None
        if 0.4 < ov < 0.6:
            fmt = rng.choice(['bz2', 'xz'])
            argv += ['--compress-format', fmt]
        prior = False
        if o.get('stray_files_manifest') and rng.random() < 0.3:
            # an unreferenced Manifest inside a package's files/ directory
            fds = [d for d, r in roles.items() if r == 'pkgfiles']
            if fds:
                prior = True
                d = rng.choice(fds)
                ents = [fm.make_entry('DATA', os.path.basename(p), data, ['SHA1'])
                        for p, data in files.items() if os.path.dirname(p) == d]
                with open(os.path.join(root, d, 'Manifest'), 'wb') as f:
                    f.write(fm.manifest_bytes(ents))
        argv.append(root)
        obs = _ordered_cli(rng, argv)
        end = 'ok' if obs['end'] == 'ok' and obs['status'] == 0 else (obs['end'] if obs['end'] != 'ok' else 'fail')
        namer = fm.Namer()
        s1 = fm.project(root, 'Manifest', namer=namer) if os.path.exists(os.path.join(root, 'Manifest')) else \
            {'nodes': [], 'mfs': [], 'top': ['Manifest']}
        inv = dict((v, k) for k, v in namer.tok.items())
        for m in s1['mfs']:
            mp = '/'.join(inv.get(c, c) for c in m['p'])
            m['sorted'] = raw_sorted(root, mp)
        va = ''
        if end == 'ok':
            o2, ld = gem.call(gem.loader, os.path.join(root, 'Manifest'))
            if o2['end'] == 'ok':
                o2, r = gem.call(ld.assert_directory_verifies, '')
            va = o2['end'] + (':' + o2['exc'] if o2['exc'] else '')
        dirs = [{'p': namer.path(d), 'role': r, 'name': os.path.basename(d)} for d, r in sorted(roles.items())]
        fclass = []
        for p in files:
            b = os.path.basename(p)
            fclass.append([namer.path(p), 'ebuild' if b.endswith('.ebuild') else 'metadata.xml' if b == 'metadata.xml' else 'other'])
        return [{'mode': 'create', 'written': [], 'newfiles': [], 'profile': profile, 'prior': prior, 'hashes': sorted(hashes), 'sort': sort, 'wm': wm, 'end': end,
                 's1': s1, 'dirs': dirs, 'fclass': fclass, 'verify_after': va,
                 'meta': {'seed': seed, 'idx': idx, 'argv': argv[:-1], 'exc': obs['exc'], 'errors': obs['errors'][:2], 'tb': obs.get('tb', '')}}]
    finally:
        shutil.rmtree(root, ignore_errors=True)


class _L:
    def __init__(self, files):
        self.files = files


def one_repo_update(args):
    """create with the profile, edit, then update with the profile: TraceUpdate step records"""
    seed, idx, o = args
    from . import gem, drv_update
    rng = random.Random('profupd-%d-%d' % (seed, idx))
    root = tlc.scratch_dir('vpu')
    try:
        roles, files = repogen.build(rng, root, portable=False)
        cprofile, profile = rng.choice([('ebuild', 'ebuild'), ('old-ebuild', 'old-ebuild'), ('ebuild', 'old-ebuild'),
                                        ('ebuild', 'old-ebuild'), ('old-ebuild', 'ebuild')])
        obs = _ordered_cli(rng, ['create', '-p', cprofile, root])
        if obs['end'] != 'ok' or obs['status'] != 0:
            return []
        # edits
        fl = sorted(files)
        for _ in range(rng.randrange(1, 4)):
            kind = rng.choice(['change', 'add_ebuild', 'delete', 'add_patch', 'add_top'])
            pk = [d for d, r in roles.items() if r == 'package']
            if kind == 'change' and fl:
                p = rng.choice(fl)
                if os.path.exists(os.path.join(root, p)):
                    with open(os.path.join(root, p), 'ab') as f:
                        f.write(b'#edit')
            elif kind == 'add_ebuild' and pk:
                d = rng.choice(pk)
                with open(os.path.join(root, d, os.path.basename(d) + '-3.%d.ebuild' % rng.randrange(9)), 'wb') as f:
                    f.write(b'EAPI=8\n')
            elif kind == 'delete' and fl:
                p = rng.choice(fl)
                if os.path.exists(os.path.join(root, p)) and not p.endswith('.ebuild'):
                    os.unlink(os.path.join(root, p))
            elif kind == 'add_patch' and pk:
                d = rng.choice(pk)
                os.makedirs(os.path.join(root, d, 'files'), exist_ok=True)
                with open(os.path.join(root, d, 'files', 'new-%d.patch' % rng.randrange(9)), 'wb') as f:
                    f.write(b'patch')
            elif kind == 'add_top':
                with open(os.path.join(root, 'NEWS-%d' % rng.randrange(9)), 'wb') as f:
                    f.write(b'news')
        before_files = set()
        for dp, dn, fn in os.walk(root):
            dn[:] = [d for d in dn if not d.startswith('.')]
            for f in fn:
                before_files.add(os.path.relpath(os.path.join(dp, f), root))
        newfiles = []
        for dp, dn, fn in os.walk(root):
            dn[:] = [d for d in dn if not d.startswith('.')]
            for f in fn:
                rel = os.path.relpath(os.path.join(dp, f), root)
                if rel not in files and not f.startswith('Manifest'):
                    newfiles.append(rel)
                    b = os.path.basename(rel)
        opts = {'hashes': ['BLAKE2B', 'SHA512'], 'sub': '', 'sort': None, 'force': False, 'wm': 128, 'fmt': 'gz',
                'profile': profile, 'scandir_order': rng.choice(['asc', 'desc', None])}
        namer = fm.Namer()
        recs = drv_update.run_history(root, _L(files), rng, namer, dict(opts, wm=None, fmt=None), {'seed': seed, 'idx': idx, 'repo': True},
                                      cli=True)
        for r in recs:
            r['ev']['opts']['wm'] = 128
            r['ev']['opts']['fmt'] = 'gz'
            r['ev']['opts']['sort'] = 'on'
            if cprofile != profile:
                r['ev']['opts']['wm'] = -1        # the watermark iff is the update family's clause; with mixed
                # profiles (old-ebuild package rule) it is judged by TraceProfile's update clauses instead
        # the profile's own obligations after the update (TraceProfile, mode "update")
        prof_recs = []
        if recs:
            r0 = recs[0]
            dirs = []
            for dp, dn, fn in os.walk(root):
                dn[:] = [d for d in dn if not d.startswith('.')]
                rel = os.path.relpath(dp, root)
                rel = '' if rel == '.' else rel
                role = roles.get(rel)
                if role is None:
                    # directories created by the edits (files/) inherit from their parent
                    par = roles.get(os.path.dirname(rel))
                    role = 'pkgfiles' if par == 'package' and os.path.basename(rel) == 'files' else \
                        'pkgfiles-sub' if par in ('pkgfiles', 'pkgfiles-sub') else 'top-plain'
                    roles[rel] = role
                dirs.append({'p': namer.path(rel), 'role': role, 'name': os.path.basename(rel)})
            fclass = []
            for nf in newfiles + sorted(files):
                b = os.path.basename(nf)
                fclass.append([namer.path(nf), 'ebuild' if b.endswith('.ebuild') else 'metadata.xml' if b == 'metadata.xml' else 'other'])
            prof_recs.append({'mode': 'update', 'profile': profile, 'prior': False, 'hashes': ['BLAKE2B', 'SHA512'],
                              'sort': True, 'wm': 128, 'end': r0['ev']['end'] if r0['ev']['end'] in ('ok',) else 'fail',
                              's1': r0['s1'], 'dirs': dirs, 'fclass': fclass, 'written': r0['written'],
                              'newfiles': [namer.path(x) for x in newfiles],
                              'verify_after': r0['verify_after'] or 'ok',
                              'meta': {'seed': seed, 'idx': idx, 'create': cprofile, 'update': profile}})
            for m in r0['s1']['mfs']:
                m.setdefault('sorted', True)
        return recs + prof_recs
    finally:
        shutil.rmtree(root, ignore_errors=True)
