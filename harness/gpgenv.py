"""Scratch GnuPG homes with freshly generated keys (offline), used as environment and as oracle
for C04 / C05 / C14.  Always killed and removed afterwards."""
import os
import shutil
import subprocess

from . import tlc

GPG = 'gpg'


def have_gpg():
    return shutil.which(GPG) is not None and shutil.which('gpgconf') is not None


class Home:
    def __init__(self, path=None):
        self.path = path or tlc.scratch_dir('gnupg')
        os.chmod(self.path, 0o700)
        self.own = path is None

    def env(self):
        e = dict(os.environ)
        e['GNUPGHOME'] = self.path
        e['TZ'] = 'UTC'
        e.pop('GPG_AGENT_INFO', None)
        return e

    def run(self, args, data=b'', check=False):
        p = subprocess.run([GPG, '--batch', '--no-tty'] + args, input=data, stdout=subprocess.PIPE,
                           stderr=subprocess.PIPE, env=self.env())
        if check and p.returncode != 0:
            raise RuntimeError('gpg %s failed: %s' % (args, p.stderr.decode('utf8', 'replace')))
        return p.returncode, p.stdout, p.stderr

    def genkey(self, uid, algo='ed25519', usage='sign', expire='never', passphrase=''):
        self.run(['--pinentry-mode', 'loopback', '--passphrase', passphrase, '--quick-generate-key', uid,
                  algo, usage, expire], check=True)
        rc, out, err = self.run(['--with-colons', '--list-keys', uid], check=True)
        for line in out.decode().splitlines():
            if line.startswith('fpr:'):
                return line.split(':')[9]
        raise RuntimeError('no fingerprint')

    def export(self, fpr=None, secret=False):
        args = ['--armor', '--export-secret-keys' if secret else '--export']
        if fpr:
            args.append(fpr)
        if secret:
            args = ['--pinentry-mode', 'loopback', '--passphrase', ''] + args
        return self.run(args, check=True)[1]

    def import_key(self, data):
        return self.run(['--import'], data)

    def set_ownertrust(self, fpr, level):
        self.run(['--import-ownertrust'], ('%s:%d:\n' % (fpr, level)).encode(), check=True)

    def clearsign(self, text, keyid=None, extra=()):
        args = ['--pinentry-mode', 'loopback', '--passphrase', ''] + list(extra)
        if keyid:
            args += ['--local-user', keyid]
        rc, out, err = self.run(args + ['--clearsign'], text.encode('utf8'))
        if rc != 0:
            raise RuntimeError('clearsign failed: ' + err.decode('utf8', 'replace'))
        return out.decode('utf8')

    def verify_status(self, text):
        """gpg --verify with status output -> (rc, [status lines without prefix])"""
        rc, out, err = self.run(['--status-fd', '1', '--verify'], text.encode('utf8', 'surrogateescape'))
        st = [l[9:] for l in out.decode('utf8', 'replace').splitlines() if l.startswith('[GNUPG:] ')]
        return rc, st

    def authenticated_cleartext(self, text):
        """What gpg itself says the signed cleartext is: (ok, cleartext or None)."""
        rc, out, err = self.run(['--status-fd', '2', '--decrypt'], text.encode('utf8', 'surrogateescape'))
        errs = err.decode('utf8', 'replace')
        good = rc == 0 and '[GNUPG:] GOODSIG' in errs and '[GNUPG:] VALIDSIG' in errs
        return good, out.decode('utf8', 'replace')

    def clone(self):
        d = tlc.scratch_dir('gnupg')
        shutil.rmtree(d)
        self.kill()
        shutil.copytree(self.path, d, ignore=shutil.ignore_patterns('S.*', '*.lock', '.#*'))
        os.chmod(d, 0o700)
        return Home(d)

    def snapshot(self):
        """byte snapshot of the home (for 'left untouched' checks); sockets/locks excluded"""
        snap = {}
        for dp, dn, fn in os.walk(self.path):
            for f in fn:
                fp = os.path.join(dp, f)
                if f.startswith('S.') or f.endswith('.lock') or f.startswith('.#'):
                    continue
                try:
                    if os.path.isfile(fp) and not os.path.islink(fp):
                        with open(fp, 'rb') as fh:
                            snap[os.path.relpath(fp, self.path)] = fh.read()
                except OSError:
                    pass
        return snap

    def kill(self):
        subprocess.run(['gpgconf', '--kill', 'all'], env=self.env(), stdout=subprocess.DEVNULL,
                       stderr=subprocess.DEVNULL)

    def close(self):
        self.kill()
        shutil.rmtree(self.path, ignore_errors=True)

    def __enter__(self):
        return self

    def __exit__(self, *a):
        self.close()
