"""Run TLC / SANY and parse what they print.

Everything the checks learn from TLC goes through this module:
  * run_mc()     - model-check a bounded model (MC_*.cfg); returns states / transitions /
                   invariant verdict / per-action coverage
  * run_judge()  - trace validation: feeds an ndjson file of recorded steps to a Trace_*.tla
                   spec, which prints one "K" (checked) line per step and one "V" line per failing
                   clause; verdicts are total (TLC never stops at the first failure)
  * run_export() - runs a spec whose only purpose is to print JSON scenarios (PrintT(ToJson(..)))
"""
import json
import os
import re
import shutil
import subprocess
import tempfile
import time

SPECS = os.path.join(os.path.dirname(os.path.dirname(os.path.abspath(__file__))), 'specs')
JAR = '/opt/veriftools/tla/tla2tools.jar:/opt/veriftools/tla/CommunityModules-deps.jar'


class MachineryError(Exception):
    """TLC crashed / output unparsable: exit status 2, never a verdict."""


def scratch_dir(prefix='gv'):
    base = '/dev/shm' if os.path.isdir('/dev/shm') and os.access('/dev/shm', os.W_OK) else None
    return tempfile.mkdtemp(prefix=prefix + '.', dir=base)


def _java(args, env=None, timeout=None, cwd=None, heap='6g'):
    cmd = ['java', '-XX:+UseParallelGC', '-Xmx' + heap, '-cp', JAR] + args
    e = dict(os.environ)
    if env:
        e.update(env)
    p = subprocess.run(cmd, stdout=subprocess.PIPE, stderr=subprocess.STDOUT, env=e,
                       timeout=timeout, cwd=cwd)
    return p.returncode, p.stdout.decode('utf8', errors='replace')


def sany(module):
    rc, out = _java(['tla2sany.SANY', module], cwd=SPECS)
    ok = rc == 0 and 'Semantic errors' not in out and 'Parse Error' not in out \
        and 'Fatal' not in out and '*** Errors' not in out
    return ok, out


_RE_STATES = re.compile(r'(\d+) states generated, (\d+) distinct states found, (\d+) states left')
_RE_DEPTH = re.compile(r'The depth of the complete state graph search is (\d+)')
_RE_INV = re.compile(r'Invariant (\S+) is violated')
_RE_PROP = re.compile(r'(?:Action|Temporal) propert(?:y|ies) (\S+)? ?(?:is|were) violated')
_RE_COV = re.compile(r'^<(\w+) line (\d+), col \d+ to line \d+, col \d+ of module (\w+)>: (\d+):(\d+)',
                     re.M)


def run_tlc(module, cfg, workers=16, env=None, timeout=3600, extra=(), simulate=None,
            coverage=False, keep=False, heap='6g', deadlock=False):
    """Run TLC on specs/<module>.tla with specs/<cfg>. Returns dict with raw output and parsed
    numbers.  The metadir lives in scratch space and is removed."""
    meta = scratch_dir('tlc')
    args = ['tlc2.TLC', '-workers', str(workers), '-metadir', meta, '-noGenerateSpecTE',
            '-config', cfg]
    if not deadlock:
        args += ['-deadlock']
    if coverage:
        args += ['-coverage', '1']
    if simulate:
        args += ['-simulate', simulate]
    args += list(extra)
    args += [module]
    t0 = time.time()
    try:
        rc, out = _java(args, env=env, timeout=timeout, cwd=SPECS, heap=heap)
    except subprocess.TimeoutExpired as e:
        rc, out = 124, (e.stdout or b'').decode('utf8', errors='replace') + '\nTIMEOUT'
    finally:
        if not keep:
            shutil.rmtree(meta, ignore_errors=True)
    res = {'rc': rc, 'out': out, 'wall': time.time() - t0, 'meta': meta}
    m = None
    for m in _RE_STATES.finditer(out):
        pass
    if m:
        res['generated'] = int(m.group(1))
        res['distinct'] = int(m.group(2))
    else:
        res['generated'] = res['distinct'] = 0
    d = _RE_DEPTH.search(out)
    res['depth'] = int(d.group(1)) if d else 0
    res['violated'] = _RE_INV.findall(out)
    if 'Action property' in out or 'Temporal properties were violated' in out:
        res['violated'] += ['<temporal>']
    res['finished'] = 'Model checking completed' in out or 'Finished in' in out
    res['error'] = ('Error:' in out and not res['violated'])
    res['coverage'] = {}
    if coverage:
        for name, line, mod, dist, tot in _RE_COV.findall(out):
            k = mod + '!' + name
            a, b = res['coverage'].get(k, (0, 0))
            res['coverage'][k] = (a + int(dist), b + int(tot))
    return res


def mc_ok(res):
    return res['rc'] == 0 and not res['violated'] and res['finished'] and not res['error']


def parse_printed(out, marker):
    """Yield python values for TLC-printed tuples <<"marker", ...>> occupying one line each.
    Supported element syntax: integers, strings, TRUE/FALSE."""
    pat = re.compile(r'^<<"' + re.escape(marker) + r'"(.*)>>\s*$')
    for line in out.splitlines():
        m = pat.match(line.strip())
        if not m:
            continue
        body = m.group(1)
        vals = []
        for tok in re.finditer(r',\s*("(?:[^"\\]|\\.)*"|-?\d+|TRUE|FALSE)', body):
            t = tok.group(1)
            if t[0] == '"':
                vals.append(json.loads(t))
            elif t in ('TRUE', 'FALSE'):
                vals.append(t == 'TRUE')
            else:
                vals.append(int(t))
        yield vals


def parse_json_prints(out):
    """PrintT(ToJson(x)) prints a quoted, escaped JSON string on one line."""
    res = []
    for line in out.splitlines():
        line = line.strip()
        if len(line) > 2 and line[0] == '"' and line[-1] == '"' and line[1] in '{[':
            try:
                res.append(json.loads(json.loads(line)))
            except ValueError:
                try:
                    # TLC does not escape inner quotes consistently in all versions
                    res.append(json.loads(line[1:-1].replace('\\"', '"').replace('\\\\', '\\')))
                except ValueError:
                    raise MachineryError('unparsable JSON print: ' + line[:200])
    return res


def run_judge(module, cfg, records, workers=16, timeout=3600, env=None, heap='6g'):
    """Trace validation.  `records` is a list of dicts, each with integer key 'id' (unique).
    The Trace spec must print <<"K", id>> for every record it judged and <<"V", id, "Clause">>
    for every failing clause, plus optionally <<"L", id, "Zone">> for lenient zones hit and
    <<"D", id, "what">> for model drift.
    Returns (verdicts: {id: [clauses]}, lenient: {id:[zones]}, drift: {id:[..]}, tlcres)."""
    d = scratch_dir('judge')
    try:
        tf = os.path.join(d, 'trace.ndjson')
        with open(tf, 'w') as f:
            for r in records:
                f.write(json.dumps(r, ensure_ascii=True, separators=(',', ':')) + '\n')
        e = {'TRACE_FILE': tf}
        if env:
            e.update(env)
        res = run_tlc(module, cfg, workers=workers, env=e, timeout=timeout, heap=heap)
    finally:
        shutil.rmtree(d, ignore_errors=True)
    out = res['out']
    if res['rc'] != 0 or not res['finished'] or res['error']:
        brief = '\n'.join(l for l in out.splitlines() if not l.startswith('<<"'))
        raise MachineryError('TLC failed on %s/%s (rc=%s):\n%s' % (module, cfg, res['rc'], brief[-2500:]))
    checked = set()
    verdicts, lenient, drift = {}, {}, {}
    for v in parse_printed(out, 'K'):
        checked.add(v[0])
    for v in parse_printed(out, 'V'):
        verdicts.setdefault(v[0], []).append(v[1])
    for v in parse_printed(out, 'L'):
        lenient.setdefault(v[0], []).append(v[1])
    for v in parse_printed(out, 'D'):
        drift.setdefault(v[0], []).append(v[1])
    res['accepted'] = set(v[0] for v in parse_printed(out, 'A'))
    want = set(r['id'] for r in records)
    if checked != want:
        missing = sorted(want - checked)[:10]
        raise MachineryError('trace acceptance failed: %d records, %d judged; missing %s\n%s'
                             % (len(want), len(checked), missing, out[-2000:]))
    return verdicts, lenient, drift, res


def run_apalache(spec_relpath, cinit, init, inv, length, timeout=600):
    """Bounded symbolic check with Apalache (used for inductive invariants of small integer specs).
    -> 'ok' | 'violation' | 'unavailable' | 'error:<tail of output>'"""
    import shutil
    exe = shutil.which('apalache-mc')
    if not exe:
        return 'unavailable'
    out = scratch_dir('apa')
    try:
        cmd = [exe, 'check', '--cinit=' + cinit, '--init=' + init, '--inv=' + inv, '--length=%d' % length,
               '--out-dir=' + out, os.path.join(SPECS, spec_relpath)]
        try:
            p = subprocess.run(cmd, stdout=subprocess.PIPE, stderr=subprocess.STDOUT, timeout=timeout, cwd=out)
        except subprocess.TimeoutExpired:
            return 'error:timeout'
        text = p.stdout.decode('utf8', errors='replace')
        if 'EXITCODE: OK' in text:
            return 'ok'
        if 'EXITCODE: ERROR (12)' in text and 'violated' in text:
            return 'violation'
        return 'error:' + text[-600:]
    finally:
        shutil.rmtree(out, ignore_errors=True)

