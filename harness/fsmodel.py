"""Abstraction function between real trees and the abstract state of the specifications.

project(root, top)      real tree  -> abstract scenario (the JSON shape Glep74.tla reads)
materialise(scn, root)  abstract scenario (as printed by TLC or built by a generator) -> real tree

The Manifest reader/writer here is deliberately independent of gemato (a broken gemato parser or
writer must not be able to hide its own damage); it is part of the trusted base.
"""
import bz2
import gzip
import hashlib
import lzma
import os
import re
import stat

BASE_MTIME = 1500000000

HASHLIB = {
    'MD5': 'md5', 'SHA1': 'sha1', 'SHA256': 'sha256', 'SHA512': 'sha512', 'RMD160': 'ripemd160',
    'WHIRLPOOL': 'whirlpool', 'BLAKE2B': 'blake2b', 'BLAKE2S': 'blake2s',
    'SHA3_256': 'sha3_256', 'SHA3_512': 'sha3_512',
}
FILE_TAGS = ('MANIFEST', 'DATA', 'EBUILD', 'MISC', 'AUX')
ALL_TAGS = FILE_TAGS + ('IGNORE', 'DIST', 'TIMESTAMP')
COMP_SUFFIXES = ('gz', 'bz2', 'lzma', 'xz')
SAFE_NAME = re.compile(r'^[A-Za-z0-9._+-]+$')


def digest(hname, data):
    hl = HASHLIB.get(hname)
    if hl is None or hl not in hashlib.algorithms_available:
        return None
    return hashlib.new(hl, data).hexdigest()


def cid_of(data):
    return 'c' + hashlib.sha1(data).hexdigest()[:10]


# ---------------------------------------------------------------------------------------------
# independent Manifest text reader / writer

_ESC = re.compile(r'\\(x[0-9a-fA-F]{2}|u[0-9a-fA-F]{4}|U[0-9a-fA-F]{8})')


def unescape(s):
    """Returns the decoded path or None if the text is not a valid escaped path."""
    out = []
    i = 0
    while i < len(s):
        ch = s[i]
        if ch != '\\':
            out.append(ch)
            i += 1
            continue
        m = _ESC.match(s, i)
        if not m:
            return None
        v = int(m.group(1)[1:], 16)
        if v > 0x10FFFF:
            return None
        out.append(chr(v))
        i = m.end()
    return ''.join(out)


_NEEDS_ESC = re.compile(r'[\x00-\x20\x7f-\x9f\\]|\s', re.U)


def escape(s):
    def enc(m):
        cp = ord(m.group(0))
        if cp <= 0x7f:
            return '\\x%02X' % cp
        if cp <= 0xffff:
            return '\\u%04X' % cp
        return '\\U%08X' % cp
    return _NEEDS_ESC.sub(enc, s)


def compression_of(path):
    for s in COMP_SUFFIXES:
        if path.endswith('.' + s):
            return s
    return 'plain'


def decompress(data, comp):
    if comp == 'plain':
        return data
    if comp == 'gz':
        return gzip.decompress(data)
    if comp == 'bz2':
        return bz2.decompress(data)
    if comp == 'lzma':
        return lzma.decompress(data, format=lzma.FORMAT_ALONE)
    if comp == 'xz':
        return lzma.decompress(data, format=lzma.FORMAT_XZ)
    raise ValueError(comp)


def compress(data, comp):
    if comp == 'plain':
        return data
    if comp == 'gz':
        return gzip.compress(data, mtime=0)
    if comp == 'bz2':
        return bz2.compress(data)
    if comp == 'lzma':
        return lzma.compress(data, format=lzma.FORMAT_ALONE)
    if comp == 'xz':
        return lzma.compress(data, format=lzma.FORMAT_XZ)
    raise ValueError(comp)


def strip_signature(text):
    """Minimal reader of the cleartext signature framework.  Returns (signed, body_text) or
    (None, None) if the framing is broken."""
    lines = text.split('\n')
    if '-----BEGIN PGP SIGNED MESSAGE-----' not in [l.rstrip('\r') for l in lines]:
        return False, text
    i = 0
    while i < len(lines) and not lines[i].strip():
        i += 1
    if i >= len(lines) or lines[i] != '-----BEGIN PGP SIGNED MESSAGE-----':
        return None, None
    i += 1
    while i < len(lines) and lines[i].strip():
        i += 1
    i += 1
    body = []
    while i < len(lines) and lines[i] != '-----BEGIN PGP SIGNATURE-----':
        l = lines[i]
        if l.startswith('- '):
            l = l[2:]
        body.append(l)
        i += 1
    if i >= len(lines):
        return None, None
    while i < len(lines) and lines[i] != '-----END PGP SIGNATURE-----':
        i += 1
    if i >= len(lines):
        return None, None
    if any(l.strip() for l in lines[i + 1:]):
        return None, None
    return True, '\n'.join(body) + '\n'


def parse_manifest_text(text):
    """-> dict(ok, signed, entries).  entries: dict(tag, path, size, ck{name:hex}, ts, odd)."""
    signed, body = strip_signature(text)
    if signed is None:
        return {'ok': False, 'signed': False, 'entries': []}
    entries = []
    for line in body.split('\n'):
        sl = line.strip().split()
        if not sl:
            continue
        tag = sl[0]
        if tag not in ALL_TAGS:
            return {'ok': False, 'signed': signed, 'entries': []}
        if tag == 'TIMESTAMP':
            if len(sl) != 2 or not re.match(r'^\d{4}-\d{2}-\d{2}T\d{2}:\d{2}:\d{2}Z$', sl[1]):
                return {'ok': False, 'signed': signed, 'entries': []}
            entries.append({'tag': tag, 'path': '', 'size': 0, 'ck': {}, 'ts': sl[1]})
            continue
        if len(sl) < 2:
            return {'ok': False, 'signed': signed, 'entries': []}
        p = unescape(sl[1])
        if p is None or p == '' or p.startswith('/'):
            return {'ok': False, 'signed': signed, 'entries': []}
        if tag == 'IGNORE':
            if len(sl) != 2:
                return {'ok': False, 'signed': signed, 'entries': []}
            entries.append({'tag': tag, 'path': p, 'size': 0, 'ck': {}})
            continue
        if len(sl) < 3 or (len(sl) - 3) % 2 or not re.match(r'^[0-9]+$', sl[2]):
            return {'ok': False, 'signed': signed, 'entries': []}
        if tag == 'DIST' and '/' in p:
            return {'ok': False, 'signed': signed, 'entries': []}
        ck = {}
        for j in range(3, len(sl), 2):
            if sl[j] in ck:
                # a checksum name listed twice: a name -> value table cannot honour every listed value
                return {'ok': False, 'signed': signed, 'entries': []}
            ck[sl[j]] = sl[j + 1]
        if tag == 'AUX':
            p = 'files/' + p
        entries.append({'tag': tag, 'path': p, 'size': int(sl[2]), 'ck': ck})
    return {'ok': True, 'signed': signed, 'entries': entries}


def format_entry(e):
    tag = e['tag']
    if tag == 'TIMESTAMP':
        return 'TIMESTAMP ' + e['ts']
    p = e['path']
    if tag == 'AUX':
        assert p.startswith('files/')
        p = p[6:]
    if tag == 'IGNORE':
        return 'IGNORE ' + escape(p)
    parts = [tag, escape(p), str(e['size'])]
    if e.get('ckl'):
        # explicit list of pairs (generators of malformed entries: a name listed twice)
        for k, v in e['ckl']:
            parts += [k, v]
        return ' '.join(parts)
    for k in sorted(e['ck']):
        parts += [k, e['ck'][k]]
    return ' '.join(parts)


def manifest_bytes(entries, comp='plain'):
    text = ''.join(format_entry(e) + '\n' for e in entries)
    return compress(text.encode('utf8'), comp)


def make_entry(tag, path, data, hashes):
    return {'tag': tag, 'path': path, 'size': len(data),
            'ck': dict((h, digest(h, data)) for h in hashes)}


# ---------------------------------------------------------------------------------------------
# projection

class Namer:
    """Maps concrete path components to tokens TLC can carry (it only needs equality)."""

    def __init__(self):
        self.tok = {}

    def __call__(self, name):
        if SAFE_NAME.match(name) and not name.startswith('~'):
            return name
        t = self.tok.get(name)
        if t is None:
            t = ('.' if name.startswith('.') else '') + '~%d' % len(self.tok)
            self.tok[name] = t
        return t

    def path(self, p):
        return [self(c) for c in p.split('/') if c != ''] if p else []


def _odd_path(p):
    comps = p.split('/')
    return any(c in ('', '.', '..') for c in comps)


def read_logical(root, rel):
    with open(os.path.join(root, rel) if rel else root, 'rb') as f:
        return f.read()


def logical_path(rel):
    for sfx in COMP_SUFFIXES:
        if rel.endswith('.' + sfx):
            return rel[:-len(sfx) - 1]
    return rel


def project(root, top='Manifest', namer=None, cidnames=None, max_nodes=4000):
    """Abstract scenario of the real tree under `root` whose top-level Manifest is `top`
    (path relative to root).  Logical view: symlinks are followed (as os.walk(followlinks=True) and
    open() do); a directory whose (dev, ino) equals that of one of its logical ancestors is
    recorded with loop=True and not descended into."""
    namer = namer or Namer()
    nodes = []
    contents = {}           # relpath -> bytes (regular files)

    def cidname(data):
        if cidnames is not None and data in cidnames:
            return cidnames[data]
        return cid_of(data)

    def visit(rel, anc):
        full = os.path.join(root, rel) if rel else root
        try:
            names = sorted(os.listdir(full))
        except OSError:
            names = []
        for n in names:
            if len(nodes) > max_nodes:
                raise RuntimeError('tree too large to project')
            r = n if not rel else rel + '/' + n
            fp = os.path.join(root, r)
            hidden = n.startswith('.')
            try:
                st = os.stat(fp)
            except OSError:
                nodes.append({'p': namer.path(r), 'k': 'dangling', 'h': hidden, 'cid': '', 'size': 0,
                              'mt': 0, 'dev': 0, 'ino': 0, 'loop': False})
                continue
            if stat.S_ISDIR(st.st_mode):
                ident = (st.st_dev, st.st_ino)
                loop = ident in anc
                nodes.append({'p': namer.path(r), 'k': 'dir', 'h': hidden, 'cid': '', 'size': 0,
                              'mt': 0, 'dev': st.st_dev % 100000, 'ino': st.st_ino % 1000000007,
                              'loop': loop})
                if not loop:
                    visit(r, anc + [ident])
            elif stat.S_ISREG(st.st_mode):
                try:
                    data = read_logical(root, r)
                except OSError:
                    nodes.append({'p': namer.path(r), 'k': 'other', 'h': hidden, 'cid': '', 'size': 0,
                                  'mt': 0, 'dev': st.st_dev % 100000, 'ino': 0, 'loop': False})
                    continue
                contents[r] = data
                nodes.append({'p': namer.path(r), 'k': 'file', 'h': hidden, 'cid': cidname(data),
                              'size': len(data),
                              # tenths of a second since BASE_MTIME (clamped: TLC integers are 32 bit)
                              'mt': max(min(st.st_mtime_ns // 10**8 - BASE_MTIME * 10, 2000000000), -2000000000),
                              'dev': st.st_dev % 100000, 'ino': 0, 'loop': False,
                              'lp': namer.path(logical_path(r))})
            else:
                nodes.append({'p': namer.path(r), 'k': 'other', 'h': hidden, 'cid': '', 'size': 0,
                              'mt': 0, 'dev': st.st_dev % 100000, 'ino': 0, 'loop': False})

    rst = os.stat(root)
    visit('', [(rst.st_dev, rst.st_ino)])
    for n in nodes:
        n.setdefault('lp', n['p'])
        n['comp'] = 'plain' if n['lp'] == n['p'] else n['p'][-1].rsplit('.', 1)[-1]

    # Manifests: transitively from the top-level one, whether or not the references match
    mfs = []
    seen = set()
    queue = [top]
    parsed = {}
    while queue:
        mp = queue.pop(0)
        if mp in seen:
            continue
        seen.add(mp)
        fp = os.path.join(root, mp)
        try:
            st = os.stat(fp)
            if not stat.S_ISREG(st.st_mode):
                continue
            raw = read_logical(root, mp)
        except (OSError, ValueError):        # ValueError: a name the OS cannot take (NUL, lone surrogate)
            continue
        comp = compression_of(mp)
        try:
            text = decompress(raw, comp).decode('utf8')
            pm = parse_manifest_text(text)
            usize = len(text.encode('utf8'))
        except Exception:
            pm = {'ok': False, 'signed': False, 'entries': []}
            usize = 0
        parsed[mp] = (pm, comp, usize)
        mdir = os.path.dirname(mp)
        for e in pm['entries']:
            if e['tag'] == 'MANIFEST' and not _odd_path(e['path']):
                queue.append(os.path.normpath(os.path.join(mdir, e['path'])))

    # unregistered Manifest files (standard names, not reachable from the top): update may adopt them
    registered = set(parsed)
    for r in sorted(contents):
        if os.path.basename(r) in ('Manifest', 'Manifest.gz', 'Manifest.bz2', 'Manifest.lzma', 'Manifest.xz') \
                and r not in parsed and r != top:
            comp = compression_of(r)
            try:
                text = decompress(contents[r], comp).decode('utf8')
                pm = parse_manifest_text(text)
                usize = len(text.encode('utf8'))
            except Exception:
                pm = {'ok': False, 'signed': False, 'entries': []}
                usize = 0
            parsed[r] = (pm, comp, usize)

    # reverse digest table over every content of the scenario and every hash name in use
    hnames = set()
    for pm, _, _ in parsed.values():
        for e in pm['entries']:
            hnames.update(e['ck'])
    rev = {}
    for data in set(contents.values()):
        c = cidname(data)
        for h in hnames:
            d = digest(h, data)
            if d is not None:
                rev[(h, d)] = c

    for mp in sorted(parsed, key=lambda x: (x.count('/'), x)):
        pm, comp, usize = parsed[mp]
        ents = []
        for e in pm['entries']:
            ck = []
            for h in sorted(e['ck']):
                v = e['ck'][h]
                ck.append([h, rev.get((h, v), ('j' if h in HASHLIB else 'u') + v[:12])])
            ents.append({'tag': e['tag'], 'p': namer.path(e['path']), 'size': min(e['size'], 2**31 - 1),
                         'ck': ck, 'odd': _odd_path(e['path']) if e['tag'] != 'TIMESTAMP' else False,
                         'ts': e.get('ts', ''),
                         # raw digests (truncated): identity of the entry across two projections, where the
                         # content atoms may be named differently
                         'hx': [[h, e['ck'][h][:16]] for h in sorted(e['ck'])]})
        mfs.append({'p': namer.path(mp), 'lp': namer.path(logical_path(mp)), 'ok': pm['ok'], 'comp': comp,
                    'signed': bool(pm['signed']), 'usize': usize, 'entries': ents,
                    'reg': mp in registered})
    return {'nodes': nodes, 'mfs': mfs, 'top': namer.path(top)}


# ---------------------------------------------------------------------------------------------
# materialisation of abstract scenarios coming from TLC

def content_for(cid, size):
    """Deterministic bytes for an abstract content id of the given size; distinct ids of equal
    size >= 2 give distinct bytes."""
    if size == 0:
        return b''
    seedb = (cid + '|').encode()
    return (seedb * (size // len(seedb) + 1))[:size]


class Concretiser:
    """Maps abstract names of TLC scenarios to deliberately hostile concrete names."""
    HOSTILE = {
        'a': 'a', 'ab': 'ab', 'a_b': 'a b', 'a.b': 'a.b', 'd': 'd', 'da': 'da', 'e': 'e',
        'u': 'zażółć', 'bs': 'b\\s', 'h': '.h', 'sp': ' x ',
    }

    def __init__(self, mapping=None):
        self.map = dict(self.HOSTILE)
        if mapping:
            self.map.update(mapping)

    def __call__(self, n):
        return self.map.get(n, n)

    def path(self, comps):
        return '/'.join(self(c) for c in comps)


def materialise(scn, root, conc=None, palette=None):
    """Create under `root` (must exist, empty) the tree described by abstract scenario `scn`.
    Nodes: k in file/dir/other/dangling; optional 'link': path (comps) -> the node is realised as
    a symlink to that path and nodes beneath it are not created (they come through the link).
    Manifest files are written by the harness's own writer from scn['mfs'] (entries with digest
    atoms resolved through `palette`: cid -> size)."""
    conc = conc or Concretiser()
    palette = dict(palette or {})
    for n in scn['nodes']:
        if n['k'] == 'file' and n['cid'] not in palette:
            palette[n['cid']] = n['size']
    linked = [n['p'] for n in scn['nodes'] if n.get('link') is not None]

    def under_link(p):
        return any(len(p) > len(l) and p[:len(l)] == l for l in linked)

    mfpaths = set(tuple(m['p']) for m in scn['mfs'])
    byts = {}
    later_mtime = []
    for n in sorted(scn['nodes'], key=lambda n: len(n['p'])):
        if under_link(n['p']):
            continue
        rel = conc.path(n['p'])
        fp = os.path.join(root, rel)
        if n.get('link') is not None:
            tgt = os.path.join(root, conc.path(n['link']))
            os.symlink(os.path.relpath(tgt, os.path.dirname(fp)), fp)
            continue
        if n['k'] == 'dir':
            os.makedirs(fp, exist_ok=True)
        elif n['k'] == 'file':
            if tuple(n['p']) in mfpaths:
                continue
            os.makedirs(os.path.dirname(fp), exist_ok=True)
            data = content_for(n['cid'], n['size'])
            byts[n['cid']] = data
            with open(fp, 'wb') as f:
                f.write(data)
            later_mtime.append((fp, n.get('mt', 0)))
        elif n['k'] == 'other':
            os.makedirs(os.path.dirname(fp), exist_ok=True)
            os.mkfifo(fp)
        elif n['k'] == 'dangling':
            os.makedirs(os.path.dirname(fp), exist_ok=True)
            os.symlink('nonexistent-target', fp)
    # Manifests, deepest first so that "self" digests (cid = "@path") can be resolved
    written = {}
    # referenced Manifests ('@path' atoms) before the ones referencing them, otherwise deepest first
    pending = sorted(scn['mfs'], key=lambda m: -len(m['p']))
    ordered = []
    while pending:
        progressed = False
        for m in list(pending):
            refs = set()
            for e in m['entries']:
                for h, c in e['ck']:
                    if isinstance(c, str) and c.startswith('@'):
                        refs.add(c[1:])
                if isinstance(e['size'], str) and e['size'].startswith('@'):
                    refs.add(e['size'][1:])
            refs.discard('/'.join(m['p']))
            if all(r in set('/'.join(x['p']) for x in ordered) or r not in set('/'.join(x['p']) for x in scn['mfs'])
                   for r in refs):
                ordered.append(m)
                pending.remove(m)
                progressed = True
        if not progressed:
            ordered += pending
            break
    for m in ordered:
        ents = []
        for e in m['entries']:
            ck = {}
            for h, c in e['ck']:
                if c[:1] in ('j', 'u'):
                    ck[h] = (c[1:] + '0' * 16)[:16]
                elif c.startswith('@'):       # digest of the Manifest file written at that path
                    ck[h] = digest(h, written[c[1:]])
                else:
                    ck[h] = digest(h, content_for(c, palette[c]))
            size = e['size']
            if isinstance(size, str) and size.startswith('@'):
                size = len(written[size[1:]])
            ents.append({'tag': e['tag'], 'path': conc.path(e['p']), 'size': size, 'ck': ck,
                         'ts': e.get('ts', '2017-01-01T00:00:00Z')})
        rel = conc.path(m['p'])
        fp = os.path.join(root, rel)
        os.makedirs(os.path.dirname(fp), exist_ok=True)
        if m.get('raw') is not None:
            data = m['raw'].encode('utf8')
        else:
            data = manifest_bytes(ents, m.get('comp', 'plain'))
        with open(fp, 'wb') as f:
            f.write(data)
        written['/'.join(m['p'])] = data
    for fp, mt in later_mtime:
        os.utime(fp, (BASE_MTIME + mt, BASE_MTIME + mt))
    return byts
