"""Signature predicates of known findings.  Each takes (record, meta) and says whether the failing
record is explained by the listed finding.  They are deliberately narrow: a violation of the same
property with another cause does not match and is reported."""


def _dups(s):
    """full paths that have, in one Manifest, an earlier and a later file entry of equal tag and
    size where the earlier one's hash names are a subset of the later one's: after
    `kept.checksums.update(dup.checksums)` the two compare equal and list.remove(dup) removes the
    kept object instead"""
    out = set()
    for m in s['mfs']:
        d = m['p'][:-1]
        ents = [e for e in m['entries'] if e['tag'] not in ('IGNORE', 'DIST', 'TIMESTAMP')]
        for i in range(len(ents)):
            for j in range(i + 1, len(ents)):
                a, b = ents[i], ents[j]
                if a['tag'] == b['tag'] and a['p'] == b['p'] and a['size'] == b['size'] \
                        and set(h for h, _ in a['ck']) <= set(h for h, _ in b['ck']):
                    out.add(tuple(d + a['p']))
    return out


def _wrong_paths(rec):
    """paths whose entries in s1 are not exact (size, digests, requested hash-name set)"""
    s1 = rec['s1']
    nodes = dict((tuple(n['p']), n) for n in s1['nodes'])
    want = set(rec['ev']['hashes'])
    sub = tuple(rec['ev']['sub'])
    bad = set()
    for m in s1['mfs']:
        if not m.get('reg', True):
            continue            # a Manifest that is not part of the tree says nothing about the update
        d = m['p'][:-1]
        for e in m['entries']:
            if e['tag'] in ('IGNORE', 'DIST', 'TIMESTAMP'):
                continue
            full = tuple(d + e['p'])
            if full[:len(sub)] != sub:
                continue
            n = nodes.get(full)
            if n is None or n['k'] != 'file':
                bad.add(full)
                continue
            if n['size'] != e['size'] or any(c != n['cid'] for _, c in e['ck']) \
                    or set(h for h, _ in e['ck']) != want:
                bad.add(full)
    return bad


def identical_duplicates(rec, meta):
    """F14: the prior Manifest held two identical entries for a file; de-duplication detaches the
    kept object (list.remove compares by value) so the surviving entry is not refreshed.  Matches
    only if EVERY inexact entry after the update is such a path."""
    d = _dups(rec['s0'])
    if not d:
        return False
    wrong = _wrong_paths(rec)
    # MANIFEST entries up the chain are recomputed from the files, they are never "wrong" because
    # of F14; any wrong path outside the duplicate set means another cause
    return bool(wrong) and wrong <= d or (not wrong and bool(d))


def notimplemented_now_ignored(rec, meta):
    """F21: an ebuild profile creates a Manifest whose initial IGNORE list names a path that already
    has an entry in a parent Manifest; gemato raises its deliberate NotImplementedError."""
    return rec.get('exc') == 'NotImplementedError' and rec.get('profile') in ('ebuild', 'old-ebuild') \
        and rec.get('cmd') in ('update', 'create') and 'now-ignored path' in (meta or {}).get('tb', '')


def selfref_manifest(rec, meta):
    """F22: a MANIFEST entry whose path has a `.` or `..` component and so names a Manifest that is
    already loaded under its plain name: loaded again and again until the name is too long."""
    if rec.get('exc') != 'ENAMETOOLONG':
        return False
    for m in rec['s']['mfs']:
        for e in m['entries']:
            if e['tag'] == 'MANIFEST' and any(c in ('.', '..') for c in e['p']):
                return True
    return False


def compat_tag_duplicates(rec, meta):
    """F33: the previous Manifest held two entries of different, compatible tags for one path; which tag
    survives depends on their order.  Matches only if the texts of all variants of the group become equal
    (as sorted line lists per Manifest) once the TAG of the lines for that path is blanked - and MANIFEST
    lines, whose digests merely follow, are compared by tag and path only."""
    inj = (meta or {}).get('inject') or {}
    if rec.get('kind') != 'canon' or inj.get('kind') != 'tagdup':
        return False
    import os
    from . import fsmodel as fm
    mfdir = os.path.dirname(inj['mf'])
    target = inj['path']

    def norm(mp, lines):
        out = []
        d = os.path.dirname(mp)
        for ln in lines:
            f = ln.split(' ')
            if len(f) >= 2 and f[0] == 'MANIFEST':
                out.append('MANIFEST ' + f[1])
            elif len(f) >= 2 and d == mfdir and fm.unescape(f[1]) == target:
                out.append(' '.join(['*'] + f[1:]))
            else:
                out.append(ln)
        return sorted(out)
    texts = [t for t in (meta.get('texts') or []) if t]
    if len(texts) < 2:
        return False
    ref = dict((mp, norm(mp, ls)) for mp, ls in texts[0].items())
    for t in texts[1:]:
        if dict((mp, norm(mp, ls)) for mp, ls in t.items()) != ref:
            return False
    return True


def apparent_size_assertion(rec, meta):
    """F38: the deliberate assertion in update_entry_for_path that the apparent and the real size agree."""
    return rec.get('exc') == 'AssertionError' and rec.get('cmd') in ('update', 'create') \
        and 'Apparent size' in (meta or {}).get('tb', '') and 'real size' in (meta or {}).get('tb', '')
