"""C08 driver: the real path codec on EVERY code point against the table exported from
PathCodec.tla; dump/load round trips of random entry lists (StringIO and real files in every
compression format); canonical fixed point of accepted texts; escape forms over full ranges."""
import datetime
import io
import os
import random
import shutil

from . import fsmodel as fm
from . import tlc


def _form(enc, cp):
    if enc == chr(cp):
        return 'lit'
    if enc.startswith('\\x') and len(enc) == 4:
        return 'x'
    if enc.startswith('\\u') and len(enc) == 6:
        return 'u'
    if enc.startswith('\\U') and len(enc) == 10:
        return 'U'
    return 'other:' + enc[:12]


def interval_records(args):
    """(table interval dict, context) -> one record; runs the real codec on every cp in it"""
    iv, ctx = args
    from . import gem
    M = gem.gemato.manifest
    pre, post = {'alone': ('', ''), 'hex': ('A', 'F'), 'digits': ('1', '0'), 'xesc': ('x', '41'),
                 'tail': ('a', ''), 'head': ('', 'a')}[ctx]
    forms = set()
    failures = sepfail = crashes = 0
    first_bad = None
    for cp in range(iv['lo'], iv['hi'] + 1):
        if cp == 47 and ctx in ('alone', 'head'):
            continue        # "/" on its own is an absolute path: outside the writer's domain (C09)
        path = pre + chr(cp) + post
        try:
            e = M.ManifestEntryDATA(path, 0, {})
            enc = e.encoded_path
            mid = enc[len(pre):len(enc) - len(post)] if post else enc[len(pre):]
            forms.add(_form(mid, cp))
            line = ' '.join(e.to_list())
            # nothing the splitter honours may be left in the encoded path
            if len(line.split()) != 3 or any(c.isspace() or ord(c) < 32 or 127 <= ord(c) <= 159 for c in enc):
                sepfail += 1
                first_bad = first_bad or cp
            back = M.ManifestPathEntry.process_path(['DATA', enc])
            if back != path:
                failures += 1
                first_bad = first_bad or cp
            # and it must be storable as UTF-8 text
            (line + '\n').encode('utf8')
        except Exception as ex:  # noqa
            crashes += 1
            first_bad = first_bad or cp
    # the same paths through a whole Manifest text (writer, line splitter, parser), where the path is the
    # LAST field of its line (IGNORE) or the last but one (DATA without checksums)
    if ctx in ('alone', 'tail', 'head'):
        import io
        cps = [cp for cp in range(iv['lo'], iv['hi'] + 1) if not (cp == 47 and ctx != 'tail')]
        for cls, mk in (('IGNORE', lambda p: M.ManifestEntryIGNORE(p)), ('DATA', lambda p: M.ManifestEntryDATA(p, 0, {}))):
            try:
                m = M.ManifestFile()
                m.entries = [mk(pre + chr(cp) + post) for cp in cps]
                out = io.StringIO()
                m.dump(out)
                m2 = M.ManifestFile()
                m2.load(io.StringIO(out.getvalue()))
                got = [e.path for e in m2.entries]
                want = [pre + chr(cp) + post for cp in cps]
                if got != want:
                    bad = [cps[k] for k in range(min(len(got), len(want))) if got[k] != want[k]]
                    failures += max(len(bad), 1)
                    first_bad = first_bad or (bad[0] if bad else cps[0])
            except Exception as ex:  # noqa
                # find the offender one by one
                for cp in cps:
                    try:
                        m = M.ManifestFile()
                        m.entries = [mk(pre + chr(cp) + post)]
                        out = io.StringIO()
                        m.dump(out)
                        m2 = M.ManifestFile()
                        m2.load(io.StringIO(out.getvalue()))
                        if [e.path for e in m2.entries] != [pre + chr(cp) + post]:
                            failures += 1
                            first_bad = first_bad or cp
                    except Exception:  # noqa
                        crashes += 1
                        first_bad = first_bad or cp
    return {'kind': 'interval', 'lo': iv['lo'], 'hi': iv['hi'], 'c': iv['c'], 'ctx': ctx,
            'forms': sorted(forms), 'failures': failures, 'sepfail': sepfail, 'crashes': crashes,
            'first_bad': first_bad or -1}


HOSTILE = [' ', '\t', '\n', '\\', 'x', 'u', 'U', '4', '1', 'A', 'f', 'G', '/', '-', '\x00', '\x7f',
           '\x85', '\xa0', ' ', ' ', ' ', '​', ' ', ' ', ' ', '　',
           '、', '퟿', '', '￿', '\U00010000', '\U0010ffff', 'é', 'ż', '\x1f', '\x9f',
           '\xa1', 'a', 'b', '.']
TAGS = ['DATA', 'MANIFEST', 'MISC', 'EBUILD', 'AUX', 'DIST', 'IGNORE', 'TIMESTAMP']
CKNAMES = ['MD5', 'SHA1', 'SHA256', 'SHA512', 'RMD160', 'WHIRLPOOL', 'BLAKE2B', 'BLAKE2S', 'SHA3_256',
           'SHA3_512', 'XYZ']


def random_entries(rng, surrogates=False):
    from . import gem
    M = gem.gemato.manifest
    ents = []
    for _ in range(rng.randrange(0, 7)):
        tag = rng.choice(TAGS)
        if tag == 'TIMESTAMP':
            ts = datetime.datetime(rng.choice([1, 17, 999, 1000, 1899, 9999, rng.randrange(1900, 2200)]), rng.randrange(1, 13), rng.randrange(1, 29),
                                   rng.randrange(24), rng.randrange(60), rng.randrange(60))
            ents.append(M.ManifestEntryTIMESTAMP(ts))
            continue
        alphabet = HOSTILE + (['\ud800', '\udfff', '\udc80'] if surrogates else [])
        path = ''.join(rng.choice(alphabet) for _ in range(rng.randrange(1, 8)))
        if tag == 'DIST':
            path = path.replace('/', '_')
        path = path.lstrip('/') or 'p'
        if tag == 'IGNORE':
            ents.append(M.ManifestEntryIGNORE(path))
            continue
        size = rng.choice([0, 1, rng.randrange(2**20), 2**31, 2**32 + 1, 2**63, 2**64, 2**64 - 1])
        ck = dict((n, '%x' % rng.getrandbits(64)) for n in rng.sample(CKNAMES, rng.randrange(0, 11)))
        ents.append(M.new_manifest_entry(tag, path, size, ck))
    return ents


def abs_entry(e):
    tag = e.tag
    if tag == 'TIMESTAMP':
        return {'tag': tag, 'path': [], 'size': '', 'ck': [], 'ts': e.ts.strftime('%Y-%m-%dT%H:%M:%SZ')}
    path = [ord(c) for c in e.path]
    if tag == 'IGNORE':
        return {'tag': tag, 'path': path, 'size': '', 'ck': [], 'ts': ''}
    return {'tag': tag, 'path': path, 'size': str(e.size),
            'ck': [[k, v] for k, v in sorted(e.checksums.items())], 'ts': ''}


def roundtrip_records(args):
    seed, n, surrogates = args
    from . import gem
    M = gem.gemato.manifest
    C = gem.gemato.compression
    rng = random.Random('rt-%d' % seed)
    recs = []
    d = tlc.scratch_dir('codec')
    try:
        for k in range(n):
            ents = random_entries(rng, surrogates=surrogates)
            via = rng.choice(['mem', 'mem', 'plain', 'gz', 'bz2', 'lzma', 'xz'])
            before = [abs_entry(e) for e in ents]
            rec = {'kind': 'roundtrip', 'before': before, 'after': [], 'oneline': True,
                   'singlespace': True, 'via': via, 'err': ''}
            try:
                m = M.ManifestFile()
                m.entries = list(ents)
                if via == 'mem':
                    f = io.StringIO()
                    m.dump(f)
                    text = f.getvalue()
                    m2 = M.ManifestFile()
                    m2.load(io.StringIO(text))
                else:
                    p = os.path.join(d, 'M%d' % k + ('' if via == 'plain' else '.' + via))
                    with C.open_potentially_compressed_path(p, 'w', encoding='utf8') as f:
                        m.dump(f)
                    raw = open(p, 'rb').read()
                    text = fm.decompress(raw, fm.compression_of(p)).decode('utf8')
                    m2 = M.ManifestFile()
                    with C.open_potentially_compressed_path(p, 'r', encoding='utf8') as f:
                        m2.load(f)
                rec['after'] = [abs_entry(e) for e in m2.entries]
                lines = text.split('\n')
                rec['oneline'] = (lines[-1] == '' and len(lines) - 1 == len(ents))
                rec['singlespace'] = all(l == ' '.join(l.split(' ')) and '  ' not in l and l == l.strip(' ')
                                         and len(l.split()) == len(l.split(' ')) for l in lines[:-1])
            except Exception as ex:  # noqa
                rec['err'] = type(ex).__name__
            recs.append(rec)
    finally:
        shutil.rmtree(d, ignore_errors=True)
    return recs


def fixedpoint_records(args):
    """accepted texts (from the C09 generators): dump(load(t)) must load again to equal entries"""
    texts = args
    from . import gem
    M = gem.gemato.manifest
    recs = []
    for t in texts:
        m = M.ManifestFile()
        try:
            m.load(io.StringIO(t), verify_openpgp=False)
        except Exception:  # noqa
            continue
        rec = {'kind': 'fixedpoint', 'first': [abs_entry(e) for e in m.entries], 'second': [], 'err': '',
               'text': t}
        try:
            f = io.StringIO()
            m.dump(f, sign_openpgp=False)
            t2 = f.getvalue()
            t2.encode('utf8')
            m2 = M.ManifestFile()
            m2.load(io.StringIO(t2), verify_openpgp=False)
            f3 = io.StringIO()
            m2.dump(f3, sign_openpgp=False)
            if f3.getvalue() != t2:
                rec['err'] = 'NotCanonical'
            rec['second'] = [abs_entry(e) for e in m2.entries]
        except Exception as ex:  # noqa
            rec['err'] = type(ex).__name__
        recs.append(rec)
    return recs


def escape_records(args):
    """(form, lo, hi, step): the real parser on every escape value in range(lo, hi, step)"""
    form, lo, hi, step = args
    from . import gem
    M = gem.gemato.manifest
    width = {'x': 2, 'u': 4, 'U': 8}[form]
    bad_char = bad_reject = 0
    first = -1
    n = 0
    for v in range(lo, hi, step):
        for fmt in ('%0*X', '%0*x'):
            n += 1
            text = 'a\\' + form + (fmt % (width, v)) + 'b'
            try:
                got = M.ManifestPathEntry.process_path(['DATA', text])
                if v > 0x10FFFF or got != 'a' + chr(v) + 'b':
                    if v > 0x10FFFF:
                        bad_reject += 1
                    else:
                        bad_char += 1
                    first = v if first < 0 else first
            except gem.gemato.exceptions.ManifestSyntaxError:
                if v <= 0x10FFFF:
                    bad_char += 1
                    first = v if first < 0 else first
            except Exception:  # noqa
                if v > 0x10FFFF:
                    bad_reject += 1
                else:
                    bad_char += 1
                first = v if first < 0 else first
    out = []
    if lo <= 0x10FFFF:
        out.append({'kind': 'escape', 'form': form, 'lo': str(lo), 'hi': str(min(hi, 0x110000)),
                    'expect': 'char', 'bad': bad_char, 'first_bad': first, 'n': n})
    if hi > 0x110000:
        out.append({'kind': 'escape', 'form': form, 'lo': str(max(lo, 0x110000)), 'hi': str(hi),
                    'expect': 'reject', 'bad': bad_reject, 'first_bad': first, 'n': n})
    return out
