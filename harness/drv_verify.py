"""Direction-2 driver for verification steps: builds seeded trees, runs the real verifier
(library and CLI, strict and keep-going) and lookups, and records one step record per call for
TraceVerify.tla."""
import os
import random
import shutil

from . import fsmodel as fm
from . import gen
from . import tlc


def entry_obs(e, relpath_dir, namer):
    """Observation of a ManifestEntry object returned by a lookup -> abstract record (paths full)"""
    if e is None:
        return []
    tag = e.tag
    path = e.path
    full = path if not relpath_dir else relpath_dir + '/' + path
    ck = []
    size = 0
    if tag not in ('IGNORE', 'TIMESTAMP'):
        size = e.size
        ck = sorted(e.checksums.items())
    return [{'tag': tag, 'path': full, 'size': size, 'ckhex': ck}]


def verify_steps(root, s, namer, rng, subs, want=('lib', 'keep', 'cli', 'clik'), lasts=(None,),
                 meta=None):
    """Run verification calls on the tree at root (already projected as s). -> list of records
    (without 'id')."""
    from . import gem, drv_update
    recs = []
    top = os.path.join(root, 'Manifest')
    # directory listings as the OS gives them, or sorted by name (a directory is then visited right before /
    # after a sibling whose name begins with its own)
    order = rng.choice([None, None, 'asc', 'desc'])
    real_scandir = os.scandir
    if order:
        os.scandir = lambda p='.', _r=real_scandir, _v=(order == 'desc'): drv_update.OrderedScandir(_r, p, _v)
    try:
        return _verify_steps(root, s, namer, rng, subs, want, lasts, meta, gem, recs, top)
    finally:
        os.scandir = real_scandir


def _verify_steps(root, s, namer, rng, subs, want, lasts, meta, gem, recs, top):
    for sub in subs:
        for last in lasts:
            base_ev = {'a': 'verify', 'api': '', 'sub': namer.path(sub), 'name': '',
                       'last': fm_last(last), 'keep': False, 'end': '', 'exc': '', 'ret': True,
                       'reported': [], 'res': []}
            kw = {}
            if last is not None:
                kw['last_mtime'] = fm.BASE_MTIME + last
            if 'lib' in want:
                obs, ld = gem.call(gem.loader, top)
                ret = None
                if obs['end'] == 'ok':
                    obs, ret = gem.call(ld.assert_directory_verifies, sub, **kw)
                ev = dict(base_ev, api='assert_directory_verifies', end=obs['end'], exc=obs['exc'],
                          ret=bool(ret) if obs['end'] == 'ok' else False)
                recs.append({'s': s, 'ev': ev, 'meta': meta})
            if 'keep' in want:
                mode = rng.choice(['F', 'T', 'N', 'mixed'])
                reported = []

                def handler(err, mode=mode, reported=reported):
                    m = mode if mode != 'mixed' else rng.choice(['F', 'T', 'N'])
                    reported.append([namer.path(err.path), m])
                    return {'F': False, 'T': True, 'N': None}[m]
                obs, ld = gem.call(gem.loader, top)
                ret = None
                if obs['end'] == 'ok':
                    obs, ret = gem.call(ld.assert_directory_verifies, sub, fail_handler=handler, **kw)
                ev = dict(base_ev, api='assert_directory_verifies', keep=True, end=obs['end'],
                          exc=obs['exc'], ret=bool(ret) if obs['end'] == 'ok' else False,
                          reported=reported)
                recs.append({'s': s, 'ev': ev, 'meta': meta})
            if last is None and 'cli' in want:
                p = os.path.join(root, sub) if sub else root
                o = gem.run_cli(['verify', '-P', p])
                ev = dict(base_ev, api='cli', end=cli_end(o), exc=o['exc'] or cli_exc(o),
                          ret=(o['status'] == 0))
                recs.append({'s': s, 'ev': ev, 'meta': meta})
            if last is None and 'clik' in want:
                p = os.path.join(root, sub) if sub else root
                o = gem.run_cli(['verify', '-P', '-k', p])
                reported = []
                for eo in o['error_objs']:
                    if isinstance(eo, gem.gemato.exceptions.ManifestMismatch):
                        reported.append([namer.path(eo.path), 'F'])
                ev = dict(base_ev, api='cli', keep=True, end=cli_end(o, keep=True),
                          exc=o['exc'] or cli_exc(o), ret=(o['status'] == 0), reported=reported)
                recs.append({'s': s, 'ev': ev, 'meta': meta})
    return recs


def fm_last(last):
    # same unit as the projection's mt: tenths of a second since BASE_MTIME
    return -1 if last is None else int(round(last * 10))


def cli_end(o, keep=False):
    """The CLI turns library exceptions into status 1 + logged message."""
    if o['end'] != 'ok':
        return o['end']
    if o['status'] == 0:
        return 'ok'
    if keep:
        # keep-going: the handler logs every mismatch and returns False; main() logs a raised
        # exception the same way.  A logged non-mismatch exception means "raised"; otherwise the
        # run is treated as a completed scan whose result is the exit status.
        if any(isinstance(eo, Exception) and not isinstance(eo, gem_mismatch())
               for eo in o['error_objs']):
            return 'fail'
        if any(isinstance(eo, str) for eo in o['error_objs']):
            return 'fail'
        return 'ok'
    return 'fail'


def gem_mismatch():
    from . import gem
    return gem.gemato.exceptions.ManifestMismatch


def cli_exc(o):
    for eo in reversed(o.get('error_objs', [])):
        if isinstance(eo, Exception):
            return type(eo).__name__
    return ''


def lookup_steps(root, s, namer, rng, paths, meta=None):
    from . import gem
    recs = []
    top = os.path.join(root, 'Manifest')
    for path in paths:
        for api in ('find_path_entry', 'verify_path', 'assert_path_verifies'):
            obs, ld = gem.call(gem.loader, top)
            ret, res = True, []
            if obs['end'] == 'ok' and rng.random() < 0.3:
                # the TIMESTAMP is looked up first on the same loader (as `gemato verify` does): whatever
                # that loads must have been checked like everything else
                obs, _ = gem.call(ld.find_timestamp)
            if obs['end'] == 'ok':
                obs, r = gem.call(getattr(ld, api), path)
                if obs['end'] == 'ok':
                    if api == 'find_path_entry':
                        res = lookup_entry(ld, r, path, namer, s, root)
                    elif api == 'verify_path':
                        ret = bool(r[0])
                    else:
                        ret = True
            ev = {'a': 'lookup', 'api': api, 'sub': namer.path(path), 'name': '', 'last': -1,
                  'keep': False, 'end': obs['end'], 'exc': obs['exc'], 'ret': ret, 'reported': [],
                  'res': res}
            recs.append({'s': s, 'ev': ev, 'meta': meta})
    return recs


def lookup_entry(ld, e, path, namer, s, root):
    """Abstract view of the entry returned by find_path_entry: we need its full path, which the
    object does not carry; it is recovered by locating the object in the loader's Manifests
    (public attribute `loaded_manifests` is documented API in the README examples)."""
    if e is None:
        return []
    for mp, m in ld.loaded_manifests.items():
        for x in m.entries:
            if x is e:
                d = os.path.dirname(mp)
                full = e.path if not d else d + '/' + e.path
                return [abs_entry(e, full, namer, s, root)]
    # not an object of any loaded Manifest: report with a path that matches nothing
    return [abs_entry(e, '?/' + e.path, namer, s, root)]


def abs_entry(e, full, namer, s, root):
    rev = digest_table(s, root)
    ck = []
    size = 0
    if e.tag not in ('IGNORE', 'TIMESTAMP'):
        size = e.size
        for h in sorted(e.checksums):
            v = e.checksums[h]
            ck.append([h, rev.get((h, v), ('j' if h in fm.HASHLIB else 'u') + v[:12])])
    return {'tag': e.tag, 'p': namer.path(full), 'size': size, 'ck': ck}


_DT_CACHE = {}


def digest_table(s, root):
    key = (root, id(s))         # id() alone is reused once an earlier scenario has been collected
    if key in _DT_CACHE:
        return _DT_CACHE[key]
    _DT_CACHE.clear()
    rev = {}
    hn = set()
    for m in s['mfs']:
        for e in m['entries']:
            for h, _ in e['ck']:
                hn.add(h)
    for dp, dn, fn in os.walk(root, followlinks=False):
        for f in fn:
            fp = os.path.join(dp, f)
            try:
                if os.path.isfile(fp):
                    with open(fp, 'rb') as fh:
                        data = fh.read()
                    for h in hn:
                        d = fm.digest(h, data)
                        if d:
                            rev[(h, d)] = fm.cid_of(data)
            except OSError:
                pass
    _DT_CACHE[key] = rev
    return rev


def _link_through_nondir(root):
    for dp, dn, fn in os.walk(root):
        for n in dn + fn:
            p = os.path.join(dp, n)
            if os.path.islink(p):
                try:
                    os.stat(p)
                except NotADirectoryError:
                    return True
                except OSError:
                    pass
    return False


def one_scenario(args):
    """Worker: (seed, index, tier) -> list of records"""
    seed, idx, opts = args
    rng = random.Random('verify-%d-%d' % (seed, idx))
    root = tlc.scratch_dir('vt')
    try:
        L = gen.random_layout(rng, dupnames=True, selfent=True)
        L.write(root)
        muts = []
        for _ in range(rng.choice([0, 0, 1, 1, 1, 2, 3])):
            m = gen.mutate(rng, L, root)
            if m:
                muts.append(m)
        if _link_through_nondir(root):
            # a symlink whose target path runs through something that is no directory (any more): opening
            # it gives ENOTDIR, not ENOENT - neither "dangling" nor "other" in the projection's terms
            return []
        namer = fm.Namer()
        s = fm.project(root, 'Manifest', namer=namer)
        dirs = [d for d in L.dirs if os.path.isdir(os.path.join(root, d))
                and not any(c.startswith('.') for c in d.split('/'))]
        subs = [''] if rng.random() < 0.6 or len(dirs) < 2 else ['', rng.choice(dirs[1:])]
        # a sub-path that is itself listed as a file but now is a directory (or the reverse)
        odd_subs = [m['p'] for m in muts if m.get('m') in ('retype_dir', 'retype_file') and m.get('p')]
        if odd_subs and rng.random() < 0.8:
            subs = subs + [rng.choice(odd_subs)]
        lasts = [None] if rng.random() < 0.5 else [None, rng.choice([5, 50, 100, 119, 119.5, 119.5, 119.5, 120, 120.5, 600])]
        meta = {'seed': seed, 'idx': idx, 'muts': muts}
        want = opts.get('want', ('lib', 'keep', 'cli', 'clik'))
        if any(os.path.basename(m.get('p', '')).startswith('Manifest') for m in muts if m.get('m') == 'stray'):
            # an unlisted file with a Manifest name is a candidate for the CLI's top-level discovery
            # (C15's business): drive the library only, whose top-level Manifest is given
            want = tuple(w for w in want if w in ('lib', 'keep'))
        recs = verify_steps(root, s, namer, rng, subs, want=want, lasts=lasts, meta=meta)
        if opts.get('lookups'):
            cands = sorted(L.files) + [m['p'] for m in muts if m.get('p')] + sorted(L.mf)
            paths = rng.sample(cands, min(len(cands), 3)) if cands else []
            recs += lookup_steps(root, s, namer, rng, paths, meta=meta)
        return recs
    finally:
        shutil.rmtree(root, ignore_errors=True)


def alias_family(args):
    """Directed family for C01 / C07 / C16: a directory and a symlink to it side by side (an alias, no loop),
    the link's name beginning with the directory's name or not; the files are reachable under both names
    and each name needs its own entries - one of them may be missing under either name (a stray there),
    a file may be altered; listings sorted ascending / descending / as the OS gives them."""
    seed, idx, opts = args
    rng = random.Random('alias-%d-%d' % (seed, idx))
    root = tlc.scratch_dir('val')
    try:
        L = gen.Layout(rng)
        par = rng.choice(['', 'cat'])
        pre = par + '/' if par else ''
        sname = rng.choice(['pkg', 'R', 'dev', 'x y'])
        lname = rng.choice([sname + '-compat', sname + '2', sname + '.d', 'alias', 'a-' + sname])
        S, Lk = pre + sname, pre + lname
        L.dirs = [''] + ([par] if par else []) + [S, S + '/files']
        hs = rng.choice(gen.HASHSETS[:4])
        L.mf['Manifest'] = []
        inner = {'x': b'xx', 'y': b'yyy', 'files/z': b'z'}
        for rel, data in inner.items():
            L.files[S + '/' + rel] = data
        L.files['top'] = b'top'
        L.add_file_entry('Manifest', 'top', b'top', 'DATA', hs)
        L.links[Lk] = S
        skip = rng.choice([None, None, (S, 'y'), (Lk, 'y'), (Lk, 'files/z'), (S, 'x')])
        for base in (S, Lk):
            for rel, data in inner.items():
                if skip == (base, rel):
                    continue
                L.add_file_entry('Manifest', base + '/' + rel, data, 'DATA', hs)
        if rng.random() < 0.5:
            rng.shuffle(L.mf['Manifest'])
        L.write(root)
        muts = []
        if rng.random() < 0.3:
            with open(os.path.join(root, S, 'x'), 'ab') as f:
                f.write(b'!')
            muts.append({'m': 'alter_size', 'p': S + '/x'})
        namer = fm.Namer()
        s = fm.project(root, 'Manifest', namer=namer)
        meta = {'seed': seed, 'idx': idx, 'alias': [S, Lk], 'skip': skip, 'muts': muts}
        subs = [''] if rng.random() < 0.7 else ['', rng.choice([S, Lk] + ([par] if par else []))]
        return verify_steps(root, s, namer, rng, subs, want=opts.get('want', ('lib', 'keep', 'cli', 'clik')), meta=meta)
    finally:
        shutil.rmtree(root, ignore_errors=True)


def last_mtime_family(args):
    """Directed family for the last_mtime clause of C01: small trees, 1-3 listed files altered (same size,
    other size, or only touched) with modification times placed around last_mtime at sub-second
    distances; only files NOT newer than last_mtime (and of unchanged size) may be skipped."""
    seed, idx, opts = args
    rng = random.Random('lastmt-%d-%d' % (seed, idx))
    root = tlc.scratch_dir('vlm')
    try:
        L = gen.random_layout(rng, depth=2, maxfiles=6, odd=0, links=False)
        L.write(root)
        last = rng.choice([100, 119, 119.5, 119.5, 120, 120.25])
        files = [p for p in sorted(L.files) if os.path.isfile(os.path.join(root, p)) and L.files[p]]
        muts = []
        for p in rng.sample(files, min(len(files), rng.randrange(1, 4))):
            fp = os.path.join(root, p)
            how = rng.choice(['same', 'same', 'same', 'size', 'touch'])
            data = open(fp, 'rb').read()
            if how == 'same':
                k = rng.randrange(len(data))
                data = data[:k] + bytes([data[k] ^ 1]) + data[k + 1:]
            elif how == 'size':
                data += b'+'
            with open(fp, 'wb') as f:
                f.write(data)
            mt = fm.BASE_MTIME + last + rng.choice([-20, -0.5, -0.2, 0, 0.2, 0.3, 0.4, 0.5, 0.75, 20])
            ns = int(round(mt * 10)) * 10**8          # exact tenths of a second
            os.utime(fp, ns=(ns, ns))
            muts.append({'m': 'lastmt_' + how, 'p': p})
        namer = fm.Namer()
        s = fm.project(root, 'Manifest', namer=namer)
        return verify_steps(root, s, namer, rng, [''], want=('lib', 'keep'), lasts=[last],
                            meta={'seed': seed, 'idx': idx, 'muts': muts, 'last': last})
    finally:
        shutil.rmtree(root, ignore_errors=True)


# ---------------------------------------------------------------------------------------------
# direction 1: behaviours exported by TLC from Verify.tla, replayed into the real code

def _prep_tlc_scenario(scn):
    """MANIFEST entries of TLC scenarios name the referenced Manifest by symbolic content id;
    turn 'equals the node's cid / size' into '@path' so that the materialiser writes the true
    digest and size of the file it has just written."""
    nodes = dict(('/'.join(n['p']), n) for n in scn['nodes'])
    for m in scn['mfs']:
        d = m['p'][:-1]
        for e in m['entries']:
            if e['tag'] != 'MANIFEST':
                continue
            full = '/'.join(d + e['p'])
            n = nodes.get(full)
            if n is None or n['k'] != 'file':
                continue
            e['ck'] = [[h, ('@' + full) if c == n['cid'] else c] for h, c in e['ck']]
            if e['size'] == n['size']:
                e['size'] = '@' + full
    return scn


PRED = {'ok': ('ok', ''), 'mismatch': ('fail', 'ManifestMismatch'),
        'incompatible': ('fail', 'ManifestIncompatibleEntry'), 'syntax': ('fail', 'ManifestSyntaxError'),
        'oserror': ('oserror', None)}


def replay_behaviour(args):
    """(index, behaviour dict printed by Verify.tla) -> list of records"""
    idx, beh = args
    from . import gem
    root = tlc.scratch_dir('vr')
    rng = random.Random(idx)
    try:
        conc = fm.Concretiser()
        scn = _prep_tlc_scenario(beh['s'])
        fm.materialise(scn, root, conc=conc, palette={'c0': 3, 'c1': 3, 'c2': 5})
        namer = fm.Namer()
        s = fm.project(root, conc.path(scn['top']), namer=namer)
        sub = conc.path(beh['sub'])
        last = None if beh['last'] < 0 else beh['last']
        want = ('keep',) if beh['keep'] else ('lib',)
        recs = verify_steps(root, s, namer, rng, [sub], want=want, lasts=[last],
                            meta={'tlc': idx})
        # model drift: Layer A's prediction against what the code did
        for r in recs:
            ev = r['ev']
            pe, px = PRED.get(beh['result'], ('?', '?'))
            drift = []
            if not beh['keep'] or beh['result'] in ('oserror', 'incompatible', 'syntax'):
                if ev['end'] != pe or (px is not None and ev['exc'] != px):
                    drift.append('result:%s/%s' % (beh['result'], ev['exc'] or ev['end']))
            elif beh['result'] == 'ok':
                want_rep = sorted(conc.path(p) for p in beh['reported'])
                got_rep = sorted(_unname(namer, p) for p, _ in ev['reported'])
                if ev['end'] != 'ok' or want_rep != got_rep:
                    drift.append('reported')
            r['drift'] = drift
        return recs
    finally:
        shutil.rmtree(root, ignore_errors=True)


def _unname(namer, comps):
    inv = dict((v, k) for k, v in namer.tok.items())
    return '/'.join(inv.get(c, c) for c in comps)


# ---------------------------------------------------------------------------------------------
# C02: the attacker who recomputes Manifests up to level k

def dist_step(root, s, namer, relpath, name, meta=None):
    from . import gem
    top = os.path.join(root, 'Manifest')
    obs, ld = gem.call(gem.loader, top)
    res = []
    if obs['end'] == 'ok':
        obs, r = gem.call(ld.find_dist_entry, name, relpath)
        if obs['end'] == 'ok' and r is not None:
            res = [abs_entry(r, r.path, namer, s, root)]
    ev = {'a': 'lookup', 'api': 'find_dist_entry', 'sub': namer.path(relpath), 'name': name,
          'last': -1, 'keep': False, 'end': obs['end'], 'exc': obs['exc'], 'ret': True,
          'reported': [], 'res': res}
    return {'s': s, 'ev': ev, 'meta': meta}


def same_loader_steps(root, s, namer, paths, meta=None):
    from . import gem
    recs = []
    top = os.path.join(root, 'Manifest')
    obs, ld = gem.call(gem.loader, top)
    if obs['end'] != 'ok':
        return recs
    gem.call(ld.assert_directory_verifies, '')          # outcome judged elsewhere; may raise
    # every question twice: a failure must not leave the loader trusting what it just rejected
    for path in list(paths) + list(paths):
        for api in ('find_path_entry', 'verify_path', 'assert_path_verifies'):
            obs, r = gem.call(getattr(ld, api), path)
            ret, res = True, []
            if obs['end'] == 'ok':
                if api == 'find_path_entry':
                    res = lookup_entry(ld, r, path, namer, s, root)
                elif api == 'verify_path':
                    ret = bool(r[0])
            ev = {'a': 'lookup', 'api': api, 'sub': namer.path(path), 'name': '', 'last': -1, 'keep': False,
                  'end': obs['end'], 'exc': obs['exc'], 'ret': ret, 'reported': [], 'res': res}
            recs.append({'s': s, 'ev': ev, 'meta': dict(meta or {}, same_loader=True)})
    return recs


def update_then_lookup_steps(root, s, namer, other, paths, meta=None):
    from . import gem
    recs = []
    top = os.path.join(root, 'Manifest')
    obs, ld = gem.call(gem.loader, top, hashes=['BLAKE2S'])
    if obs['end'] != 'ok':
        return recs
    obs, _ = gem.call(ld.update_entry_for_path, other)
    if obs['end'] != 'ok':
        return recs            # the chain above `other` is itself broken: judged by the other steps
    for path in paths:
        for api in ('find_path_entry', 'verify_path', 'assert_path_verifies'):
            obs, r = gem.call(getattr(ld, api), path)
            ret, res = True, []
            if obs['end'] == 'ok':
                if api == 'find_path_entry':
                    res = lookup_entry(ld, r, path, namer, s, root)
                elif api == 'verify_path':
                    ret = bool(r[0])
            ev = {'a': 'lookup', 'api': api, 'sub': namer.path(path), 'name': '', 'last': -1, 'keep': False,
                  'end': obs['end'], 'exc': obs['exc'], 'ret': ret, 'reported': [], 'res': res}
            recs.append({'s': s, 'ev': ev, 'meta': dict(meta or {}, same_loader='after_update', updated=other)})
    return recs


def one_tamper(args):
    seed, idx, opts = args
    rng = random.Random('tamper-%d-%d' % (seed, idx))
    root = tlc.scratch_dir('vc')
    try:
        depth = rng.randrange(1, 6)
        # "same-size attack": plain Manifests, weaker duplicate references listed first, a content
        # change that keeps every size - a tampered Manifest then satisfies a size-only reference
        ssz = rng.random() < 0.25
        L = gen.Layout(rng)
        L.mf['Manifest'] = []
        dirs = ['']
        names = rng.sample(gen.DIRNAMES, 5)
        for k in range(depth):
            dirs.append((dirs[-1] + '/' if dirs[-1] else '') + names[k])
        L.dirs = list(dirs)
        level_mf = {0: 'Manifest'}
        for k in range(1, depth + 1):
            comp = 'plain' if ssz else rng.choice(gen.COMPS)
            mp = dirs[k] + '/Manifest' + ('' if comp == 'plain' else '.' + comp)
            L.mf[mp] = []
            level_mf[k] = mp
            parent = level_mf[k - 1]
            if rng.random() < 0.2 and k >= 1:
                # an intermediate second Manifest in the parent's directory carries the reference
                comp2 = rng.choice(gen.COMPS)
                pd = dirs[k - 1]
                xp = (pd + '/' if pd else '') + 'Manifest.extra' + ('' if comp2 == 'plain' else '.' + comp2)
                if xp not in L.mf:
                    L.mf[xp] = []
                    L.mf[parent].append({'tag': 'MANIFEST', 'path': L.rel(xp, parent), 'size': 0,
                                         'ck': {'SHA256': ''}, 'ref': xp})
                    parent = xp
            if rng.random() < (0.8 if ssz else 0.3):
                # a second, weaker reference (size only, or another single hash) listed first: EVERY
                # entry recorded for the sub-Manifest must hold
                L.mf[parent].append({'tag': 'MANIFEST', 'path': L.rel(mp, parent), 'size': 0,
                                     'ck': {}, 'sizeonly': True, 'ref': mp})
            if rng.random() < 0.08:
                # the only reference lists nothing but hash names that cannot be computed here: the size alone
                # is no hash chain
                L.mf[parent].append({'tag': 'MANIFEST', 'path': L.rel(mp, parent), 'size': 0, 'unsup': True,
                                     'ck': rng.choice([{'WHIRLPOOL': 'ab' * 64}, {'FOOHASH': '12' * 16},
                                                       {'WHIRLPOOL': 'ab' * 64, 'STREEBOG999': 'cd' * 64}]), 'ref': mp})
            else:
                L.mf[parent].append({'tag': 'MANIFEST', 'path': L.rel(mp, parent), 'size': 0,
                                     'ck': dict((h, '') for h in rng.choice(gen.HASHSETS[:4])), 'ref': mp})
        pal = gen.palette(rng)
        for k in range(depth + 1):
            for _ in range(rng.randrange(0, 3) if k < depth else rng.randrange(1, 3)):
                name = rng.choice(gen.NAMES)
                p = (dirs[k] + '/' if dirs[k] else '') + name
                if p in L.files or p in L.dirs:
                    continue
                L.files[p] = rng.choice(pal)
                # the entry lives in the Manifest of its own level (deepest)
                L.add_file_entry(level_mf[k], p, L.files[p], 'DATA', rng.choice(gen.HASHSETS[:4]))
            if rng.random() < 0.5:
                L.mf[level_mf[k]].append({'tag': 'DIST', 'path': 'dist-%d.tar' % k, 'size': 10 + k,
                                          'ck': {'SHA256': '%064x' % k}})
        L.write(root)
        # ---- attack
        j = rng.randrange(1, depth + 1)          # level of the tampered object (below the top)
        k = rng.randrange(1, j + 1)              # Manifests of levels j..k recomputed, k-1 untouched
        if rng.random() < 0.15:
            k = 0                                # control: full recomputation incl. top => consistent
        kind = rng.choice(['change', 'add', 'remove', 'dist', 'none'])
        if ssz:
            kind = 'change'
        mp = level_mf[j]
        here = [p for p in L.files if os.path.dirname(p) == dirs[j]]
        target = None
        if kind == 'change' and here:
            target = rng.choice(here)
            newdata = rng.choice([x for x in pal if x != L.files[target]])
            if (ssz or rng.random() < 0.5) and L.files[target]:
                # same length: the recomputed Manifests keep their sizes too
                newdata = bytes((b ^ 1) if 64 < b < 127 else b for b in L.files[target])
                if newdata == L.files[target]:
                    newdata = L.files[target][::-1]
            with open(os.path.join(root, target), 'wb') as f:
                f.write(newdata)
            for e in L.mf[mp]:
                if e['tag'] == 'DATA' and e['path'] == L.rel(target, mp):
                    e['size'] = len(newdata)
                    e['ck'] = dict((h, fm.digest(h, newdata)) for h in e['ck'])
        elif kind == 'add':
            target = dirs[j] + '/added'
            with open(os.path.join(root, target), 'wb') as f:
                f.write(b'added by attacker')
            L.add_file_entry(mp, target, b'added by attacker', 'DATA', ['SHA256'])
        elif kind == 'remove' and here:
            target = rng.choice(here)
            os.unlink(os.path.join(root, target))
            L.mf[mp] = [e for e in L.mf[mp] if not (e['tag'] == 'DATA' and e['path'] == L.rel(target, mp))]
        elif kind == 'dist':
            target = 'dist'
            L.mf[mp] = [e for e in L.mf[mp] if e['tag'] != 'DIST'] + [
                {'tag': 'DIST', 'path': 'dist-%d.tar' % j, 'size': 999, 'ck': {'SHA256': 'ee' * 32}},
                {'tag': 'DIST', 'path': 'evil.tar', 'size': 1, 'ck': {'SHA256': 'ff' * 32}}]
        # recompute levels j .. k (deepest first); everything at a level: all Manifests whose
        # directory is dirs[level]
        if kind != 'none' and target is not None:
            only = set()
            for lvl in range(j, max(k, 0) - 1, -1):
                for m in L.mf:
                    if L.mdir(m) == dirs[lvl] and (lvl >= 1 or k == 0):
                        only.add(m)
            if k == 1 and rng.random() < 0.5:
                # ... and the Manifests that share the top-level Manifest's directory (Manifest.extra there):
                # everything but the top-level Manifest itself is the attacker's
                for m in L.mf:
                    if L.mdir(m) == '' and m != 'Manifest':
                        only.add(m)
            # freeze the MANIFEST entries of untouched levels
            L.write_manifests(root, only=only)
            if rng.random() < 0.3:
                # the attacker sets the modification times of what he rewrote to the epoch (or before it):
                # no time stamp is a reason to skip a checksum when no last-verification time was given
                t = rng.choice([0, 0, -5, 1])
                for m in only:
                    os.utime(os.path.join(root, m), (t, t))
                if target and target != 'dist' and os.path.exists(os.path.join(root, target)):
                    os.utime(os.path.join(root, target), (t, t))
        namer = fm.Namer()
        s = fm.project(root, 'Manifest', namer=namer)
        meta = {'seed': seed, 'idx': idx, 'depth': depth, 'j': j, 'k': k, 'kind': kind, 'target': target, 'ssz': ssz}
        subs = ['', dirs[rng.randrange(0, depth + 1)]]
        recs = verify_steps(root, s, namer, rng, subs, want=('lib', 'keep'), meta=meta)
        paths = [p for p in [target, rng.choice(sorted(L.files)) if L.files else None] if p and p != 'dist']
        paths.append(dirs[j] + '/nonexistent')
        recs += lookup_steps(root, s, namer, rng, paths, meta=meta)
        # the same questions on ONE loader after a whole-tree verification (which may have failed)
        recs += same_loader_steps(root, s, namer, paths, meta=meta)
        # ... and after an UNSAVED single-path update on that loader which marks the Manifest just above the
        # first recomputed one as modified (another hash set for a file it lists): what is loaded later
        # must still be checked against the entries of that Manifest
        if kind != 'none' and target is not None and k >= 1:
            others = [p for p in sorted(L.files) if os.path.dirname(p) == dirs[k - 1] and p != target
                      and os.path.isfile(os.path.join(root, p))]
            if others:
                oth = rng.choice(others)
                # (the updated file itself is answered from the loader's unsaved state: not asked)
                recs += update_then_lookup_steps(root, s, namer, oth, [p for p in paths if p != oth], meta=meta)
        for lvl in sorted(set([j, rng.randrange(0, depth + 1)])):
            for name in ('dist-%d.tar' % j, 'evil.tar', 'dist-0.tar'):
                recs.append(dist_step(root, s, namer, dirs[lvl], name, meta=meta))
        return recs
    finally:
        shutil.rmtree(root, ignore_errors=True)
