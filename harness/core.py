"""Common machinery of every check: run context, evidence, violations, known findings."""
import hashlib
import json
import os
import sys
import time

from . import tlc

VERIF = os.path.dirname(os.path.dirname(os.path.abspath(__file__)))
EVID = os.path.join(VERIF, 'evidence')
REPLAYS = os.path.join(VERIF, 'replays')
KNOWN = os.path.join(VERIF, 'known_findings.json')


def load_known():
    try:
        with open(KNOWN) as f:
            return json.load(f)
    except FileNotFoundError:
        return []


class Ctx:
    """One run of one check."""

    def __init__(self, pid, tier, seed):
        self.pid = pid
        self.tier = tier
        self.seed = seed
        self.t0 = time.time()
        self.states = 0
        self.transitions = 0
        self.mc_runs = []
        self.traces = 0
        self.evaluations = 0
        self.distinct = set()
        self.samples = []
        self.clauses = {}
        self.lenient = {}
        self.drift = {}
        self.skipped = []
        self.assumptions = []
        self.violations = []        # (clause, replay_path, what)
        self.known_hits = []
        self.other_props = {}
        self.extra = {}
        self.vacuous = []
        self.known = [k for k in load_known() if k.get('property') == pid]

    # -- model checking -----------------------------------------------------------------
    def mc(self, module, cfg, must_hold=True, expect_violation=None, **kw):
        """Bounded model check of a Layer-A model.  A violated invariant of the *model* on the
        unchanged specification is a machinery failure (the spec is wrong or was changed), not a
        property violation of the code."""
        kw.setdefault('coverage', self.tier == 'thorough')
        tmpcfg = None
        if expect_violation:
            # a defect configuration may break several invariants and TLC's workers race: check only the
            # one that is expected, so that the outcome does not depend on which is found first
            with open(os.path.join(tlc.SPECS, cfg)) as f:
                text = '\n'.join(l for l in f.read().splitlines()
                                 if not l.startswith('INVARIANT') or l.split()[1:] == [expect_violation]) + '\n'
            tmpcfg = '.expect_%d_%s' % (os.getpid(), cfg)
            with open(os.path.join(tlc.SPECS, tmpcfg), 'w') as f:
                f.write(text)
        try:
            res = tlc.run_tlc(module, tmpcfg or cfg, **kw)
        finally:
            if tmpcfg:
                os.unlink(os.path.join(tlc.SPECS, tmpcfg))
        self.states += res['distinct']
        self.transitions += res['generated']
        rec = {'module': module, 'cfg': cfg, 'distinct': res['distinct'],
               'generated': res['generated'], 'depth': res['depth'], 'wall_s': round(res['wall'], 1),
               'violated': res['violated']}
        if res.get('coverage'):
            never = sorted(k for k, (d, t) in res['coverage'].items() if t == 0)
            rec['actions_never_taken'] = never
            rec['action_counts'] = dict((k, v[1]) for k, v in res['coverage'].items())
            self.vacuous += never
        self.mc_runs.append(rec)
        if expect_violation:
            if expect_violation not in res['violated']:
                raise tlc.MachineryError('%s/%s: expected TLC to exhibit %s, got %s\n%s' % (
                    module, cfg, expect_violation, res['violated'], res['out'][-1500:]))
        elif must_hold and not tlc.mc_ok(res):
            raise tlc.MachineryError('%s/%s: model check failed: %s\n%s' % (
                module, cfg, res['violated'], res['out'][-3000:]))
        return res

    # -- trace validation ---------------------------------------------------------------
    def judge(self, module, cfg, records, metas=None, replay_info=None, sig=None, reject_drift=None, **kw):
        """records: list of dicts WITHOUT ids (ids are assigned here).  Returns verdict dict.
        Clauses are named '<PID>.<Name>'; only clauses of this check's property raise a
        violation, the others are counted under other_props."""
        if not records:
            return {}
        for k, r in enumerate(records):
            r['id'] = k
        verdicts, lenient, drift, res = tlc.run_judge(module, cfg, records, **kw)
        self.traces += len(records)
        self.evaluations += len(records)
        self.states += res['distinct']
        self.transitions += res['generated']
        for i, zs in lenient.items():
            for z in zs:
                self.lenient[z] = self.lenient.get(z, 0) + 1
        for i, ds in drift.items():
            for d in ds:
                self.drift[d] = self.drift.get(d, 0) + 1
        if reject_drift:
            # event-level trace specs print <<"A", id>> when a record's events were all consumed
            self.last_rejected = sorted(set(r['id'] for r in records) - res['accepted'])
            if self.last_rejected:
                self.drift[reject_drift] = self.drift.get(reject_drift, 0) + len(self.last_rejected)
        for i, cs in verdicts.items():
            for c in cs:
                self.clauses[c] = self.clauses.get(c, 0) + 1
                if c.split('.')[0] != self.pid:
                    self.other_props[c] = self.other_props.get(c, 0) + 1
                    continue
                meta = metas[i] if metas else None
                self.violation(c, records[i], meta, replay_info)
        for r in records:
            if sig:
                self.distinct.add(sig(r))
        return verdicts

    def violation(self, clause, record, meta=None, replay_info=None, what=None):
        body = {'property': self.pid, 'clause': clause, 'record': record, 'meta': meta,
                'replay': replay_info, 'tier': self.tier, 'seed': self.seed}
        for k in self.known:
            if k.get('status') == 'known' and match_signature(k.get('signature', {}), clause, record, meta):
                self.known_hits.append((k['id'], k['what']))
                return
        h = hashlib.sha1(json.dumps(body, sort_keys=True, default=str).encode()).hexdigest()[:12]
        os.makedirs(REPLAYS, exist_ok=True)
        path = os.path.join(REPLAYS, '%s-%s.json' % (self.pid, h))
        if len(self.violations) < 25:
            with open(path, 'w') as f:
                json.dump(body, f, indent=1, default=str)
        self.violations.append((clause, path, what or clause))

    def sample(self, x, limit=6):
        if len(self.samples) < limit:
            self.samples.append(x)

    # -- finish -------------------------------------------------------------------------
    def finish(self, level='model_checking', rule=''):
        # clauses of the specification's growth beyond the listed properties (X0n.*): reported, never a violation
        for k, v in sorted(self.other_props.items()):
            if k.startswith('X'):
                print('EXT-FINDING: %s x%d (outside the listed properties; see DESIGN 20)' % (k, v))
        cov = {
            'states': self.states, 'transitions': self.transitions,
            'traces_validated_against_impl': self.traces,
            'samples': self.samples or ['(none)'],
            'evaluations': max(self.evaluations, 1),
            'distinct_nontrivial': len(self.distinct),
            'rule': rule,
            'mc_runs': self.mc_runs,
            'clauses_failed': self.clauses,
            'other_property_clauses_seen': self.other_props,
            'lenient_zones_hit': self.lenient,
            'model_drift': self.drift,
            'skipped': self.skipped,
            'vacuous': sorted(set(self.vacuous)),
            'known_findings_hit': sorted(set(k for k, _ in self.known_hits)),
        }
        cov.update(self.extra)
        ev = {'property_id': self.pid, 'tier': self.tier, 'seed': self.seed, 'level': level,
              'coverage': cov, 'assumptions': self.assumptions,
              'wall_s': round(time.time() - self.t0, 2), 'violations': len(self.violations)}
        os.makedirs(EVID, exist_ok=True)
        with open(os.path.join(EVID, self.pid + '.json'), 'w') as f:
            json.dump(ev, f, indent=1, default=str)
        seen = set()
        for kid, what in self.known_hits:
            if kid not in seen:
                seen.add(kid)
                print('KNOWN-FINDING: property=%s %s' % (self.pid, what))
        shown = set()
        for clause, path, what in self.violations:
            if (clause) in shown and len(shown) > 0 and len(self.violations) > 25:
                continue
            shown.add(clause)
            print('VIOLATION property=%s replay=%s clause=%s' % (self.pid, path, what))
        print('%s %s: states=%d transitions=%d traces=%d violations=%d known=%d wall=%.1fs' % (
            self.pid, self.tier, self.states, self.transitions, self.traces, len(self.violations),
            len(seen), time.time() - self.t0))
        return 1 if self.violations else 0


def match_signature(sig, clause, record, meta):
    """A known-finding signature: {'clause': <exact>, 'pred': <name of predicate in findings.py>}"""
    if sig.get('clause') and sig['clause'] != clause:
        return False
    if sig.get('clauses') and clause not in sig['clauses']:
        return False
    pred = sig.get('pred')
    if pred:
        from . import findings
        return bool(getattr(findings, pred)(record, meta))
    return True


def pool_map(fn, args, procs=16, chunksize=4):
    from multiprocessing import Pool
    if procs <= 1 or len(args) < 4:
        return [fn(a) for a in args]
    with Pool(procs) as p:
        return p.map(fn, args, chunksize=chunksize)
