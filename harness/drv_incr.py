"""C11 driver: histories of file operations with controlled mtimes replayed on two copies of a
tree (incremental vs full `gemato update`), under TZ settings UTC / east / west, with a virtual
clock for the TIMESTAMP and a modification injected after the k-th per-file hashing step."""
import datetime as _dt
import hashlib
import os
import random
import shutil
import time
import types

from . import fsmodel as fm
from . import tlc

BASE = 1600000000        # virtual epoch of round 0 (UTC seconds)
DAY = 86400


class _Clock:
    now = float(BASE)


def _fake_datetime_module():
    real = _dt

    class _Meta(type(real.datetime)):
        def __instancecheck__(cls, obj):        # a real datetime is as good as one of ours
            return isinstance(obj, real.datetime)

    class FakeDT(real.datetime, metaclass=_Meta):
        @classmethod
        def utcnow(cls):
            return real.datetime.utcfromtimestamp(_Clock.now)

        @classmethod
        def now(cls, tz=None):
            if tz is None:
                return real.datetime.fromtimestamp(_Clock.now)
            return real.datetime.fromtimestamp(_Clock.now, tz)

    m = types.ModuleType('datetime')
    m.__dict__.update(real.__dict__)
    m.datetime = FakeDT
    return m


def set_tz(tz):
    os.environ['TZ'] = tz
    time.tzset()


def read_entries(root):
    """{path: (size, sha1hex)} from the tree's Manifest via the harness reader, plus TIMESTAMP"""
    with open(os.path.join(root, 'Manifest'), 'rb') as f:
        pm = fm.parse_manifest_text(f.read().decode('utf8'))
    ents, ts = {}, None
    for e in pm['entries']:
        if e['tag'] == 'TIMESTAMP':
            ts = e['ts']
        elif e['tag'] in ('DATA', 'MANIFEST'):
            ents[e['path']] = (e['size'], e['ck'].get('SHA1'), tuple(sorted(e['ck'])))
            if e['tag'] == 'MANIFEST':
                # the entries of a (plain) sub-Manifest, under their full paths
                try:
                    with open(os.path.join(root, e['path']), 'rb') as f:
                        sub = fm.parse_manifest_text(f.read().decode('utf8'))
                except (OSError, ValueError):
                    continue
                d = os.path.dirname(e['path'])
                for se in sub['entries']:
                    if se['tag'] == 'DATA':
                        ents[d + '/' + se['path']] = (se['size'], se['ck'].get('SHA1'), tuple(sorted(se['ck'])))
    return ents, ts


def ts_epoch(ts):
    return int(_dt.datetime.strptime(ts, '%Y-%m-%dT%H:%M:%SZ').replace(tzinfo=_dt.timezone.utc).timestamp())


def one_history(args):
    seed, idx, o = args
    from . import gem
    rng = random.Random('incr-%d-%d' % (seed, idx))
    # (two zones with daylight-saving rules, a northern and a southern one: whatever the date, one of them
    # has DST in effect; POSIX rule strings need no tzdata)
    tz = o.get('tz') or rng.choice(['UTC', 'XXX-5', 'XXX5', 'XXX-11', 'XXX9',
                                    'NST-1NDT,M3.5.0,M10.5.0/3', 'SST-1SDT,M10.1.0,M3.5.0/3'])
    base = tlc.scratch_dir('vi')
    old_tz = os.environ.get('TZ')
    # the virtual clock is installed in EVERY gemato module that refers to `datetime` (wherever the
    # implementation asks for the time, it asks this clock)
    import sys as _sys
    dt_users = [m for n, m in list(_sys.modules.items())
                if (n == 'gemato' or n.startswith('gemato.')) and m is not None
                and getattr(m, 'datetime', None) is _dt]
    # ... and likewise a `time` module whose time() is the virtual clock
    import time as _time
    tm_users = [m for n, m in list(_sys.modules.items())
                if (n == 'gemato' or n.startswith('gemato.')) and m is not None
                and getattr(m, 'time', None) is _time]
    fake_time = types.ModuleType('time')
    fake_time.__dict__.update(_time.__dict__)
    fake_time.time = lambda: _Clock.now
    fake_time.time_ns = lambda: int(_Clock.now * 1e9)
    old_dtmod = gem.gemato.cli.datetime
    old_uefp = gem.gemato.recursiveloader.update_entry_for_path
    recs = []
    try:
        set_tz(tz)
        fake = _fake_datetime_module()
        for m in dt_users:
            m.datetime = fake
        for m in tm_users:
            m.time = fake_time
        gem.gemato.cli.datetime = fake
        A, B = os.path.join(base, 'inc'), os.path.join(base, 'full')
        os.mkdir(A)
        names = ['f%d' % k for k in range(rng.randrange(2, 6))] + ['sub/g1', 'sub/g2']
        os.mkdir(os.path.join(A, 'sub'))
        for n in names:
            with open(os.path.join(A, n), 'wb') as f:
                f.write(b'v0-' + n.encode())
            t = BASE - 100
            os.utime(os.path.join(A, n), (t, t))
        # half of the histories have a sub-Manifest (adopted by create); it is a file like the others, edited by
        # hand now and then: its DIST line gets another digest (same size) or a second line (other size)
        submf = rng.random() < 0.5
        if submf:
            with open(os.path.join(A, 'sub', 'Manifest'), 'wb') as f:
                f.write(b'DIST x-1.tar 1 SHA1 ' + b'a' * 40 + b'\n')
            os.utime(os.path.join(A, 'sub', 'Manifest'), (BASE - 100, BASE - 100))
            names.append('sub/Manifest')
        _Clock.now = BASE + rng.random()
        o1 = gem.run_cli(['create', '--timestamp', '--hashes', 'SHA1', A])
        if o1['status'] != 0:
            return [{'tz': tz, 'files': [], 'dts': 0, 'ok': False, 'meta': {'seed': seed, 'idx': idx, 'stage': 'create', 'obs': str(o1)[:300]}}]
        # sometimes many more (never modified) files and a tight budget of file descriptors for the
        # updates: what the incremental run skips must not cost a descriptor each
        fdcap = rng.random() < 0.12
        if fdcap:
            os.mkdir(os.path.join(A, 'bulk'))
            for k in range(48):
                p = os.path.join(A, 'bulk', 'k%02d' % k)
                with open(p, 'wb') as f:
                    f.write(b'bulk-%d' % k)
                os.utime(p, (BASE - 100, BASE - 100))
            o1 = gem.run_cli(['update', '--hashes', 'SHA1', A])
        shutil.copytree(A, B, symlinks=True)
        pending_mid = []                 # modifications injected during the previous update
        for rnd in range(rng.randrange(1, 4)):
            ents_inc, ts = read_entries(A)
            prev = ts_epoch(ts)
            # files whose incremental entry was already stale before this round's operations
            # (an earlier modification violated the precondition and was legitimately skipped)
            stale_before = set()
            for n in names:
                p = os.path.join(A, n)
                if os.path.exists(p) and n in ents_inc:
                    data = open(p, 'rb').read()
                    if ents_inc[n][:2] != (len(data), hashlib.sha1(data).hexdigest()):
                        stale_before.add(n)
            _Clock.now = prev + DAY + rng.random() * 100
            if rng.random() < 0.15:
                # the clock was stepped back (or the previous update ran on a host whose clock is
                # ahead): the previous TIMESTAMP lies in the future
                _Clock.now = prev - rng.choice([30, 3600, DAY]) + rng.random()
            ops = {}
            live = [n for n in names if os.path.exists(os.path.join(A, n))]
            for n in rng.sample(live, min(len(live), rng.randrange(0, 4))):
                kind = rng.choice(['same', 'same', 'same', 'size', 'delete', 'touch'])
                if n == 'sub/Manifest' and kind == 'delete':
                    kind = 'same'
                if n == 'sub/Manifest' and kind == 'same' and rng.random() < 0.35:
                    kind = 'revert'
                # mtime relative to the previous TIMESTAMP
                d = rng.choice([-3600.0, -1.0, 0.0, 0.001, 0.5, 0.999, 1.0, 60.0, 3 * 3600.0, 6 * 3600.0, 12 * 3600.0,
                                _Clock.now - prev - 1])
                if _Clock.now < prev:
                    d = rng.choice([-2.0 * DAY, _Clock.now - prev - 1, 1.0, 60.0])
                ops[n] = (kind, d)
            if rng.random() < 0.5:
                nn = 'new%d' % rnd
                ops[nn] = ('add', rng.choice([-5.0, 0.0, 0.5, 100.0]))
                names.append(nn)
            if rng.random() < 0.2:
                # a directory ADDED with old modification times (unpacked from an archive, rsync -t) that brings
                # its own Manifest along - stale for one of its files (same size, other content)
                dn = 'pkg%d' % rnd
                for root in (A, B):
                    os.mkdir(os.path.join(root, dn))
                    for fn, data in (('h1', b'shipped-1'), ('h2', b'shipped-2')):
                        with open(os.path.join(root, dn, fn), 'wb') as f:
                            f.write(data)
                    with open(os.path.join(root, dn, 'Manifest'), 'wb') as f:
                        f.write(b'DATA h1 9 SHA1 ' + hashlib.sha1(b'shipped-1').hexdigest().encode() + b'\n'
                                + b'DATA h2 9 SHA1 ' + hashlib.sha1(b'shipped-X').hexdigest().encode() + b'\n')
                    for fn in ('h1', 'h2', 'Manifest'):
                        t = prev - rng.choice([5, 3600, 5 * DAY])
                        os.utime(os.path.join(root, dn, fn), (t, t))
                names += [dn + '/h1', dn + '/h2']
            flist = {}
            pending_mid_prev = list(pending_mid)
            for n, (kind, d) in ops.items():
                for root in (A, B):
                    p = os.path.join(root, n)
                    if kind == 'delete':
                        os.unlink(p)
                        continue
                    if kind == 'touch':
                        pass
                    elif kind == 'same' and n == 'sub/Manifest':
                        old = open(p, 'rb').read()      # another digest on the first DIST line, same size
                        i = old.index(b' SHA1 ') + 6
                        open(p, 'wb').write(old[:i] + (b'b' if old[i:i + 1] == b'a' else b'a') + old[i + 1:])
                    elif kind == 'revert' and n == 'sub/Manifest':
                        # "reverted to an older revision": the digest of one DATA line changed (same size), the
                        # file it names is untouched
                        old = open(p, 'rb').read()
                        j = old.find(b'DATA ')
                        if j >= 0:
                            i = old.index(b' SHA1 ', j) + 6
                            old = old[:i] + (b'0' if old[i:i + 1] != b'0' else b'1') + old[i + 1:]
                        open(p, 'wb').write(old)
                    elif kind == 'size' and n == 'sub/Manifest':
                        open(p, 'ab').write(b'DIST y-%d.tar 1 SHA1 ' % rnd + b'c' * 40 + b'\n')
                    elif kind == 'same':
                        old = open(p, 'rb').read()
                        new = bytes([old[0] ^ 1]) + old[1:] if rnd % 2 == 0 else old[:-1] + bytes([old[-1] ^ 1])
                        open(p, 'wb').write(new)
                    elif kind == 'size':
                        open(p, 'ab').write(b'+')
                    elif kind == 'add':
                        open(p, 'wb').write(('added-%d' % rnd).encode())
                    ns = int(round((prev + d) * 1e9))
                    os.utime(p, ns=(ns, ns))
            for n in names:
                p = os.path.join(A, n)
                exists = os.path.exists(p)
                kind, d = ops.get(n, (None, None))
                mid = n in pending_mid
                if exists:
                    st = os.stat(p)
                    dmt = int(round((st.st_mtime_ns - prev * 10**9) / 10**6))
                    sz = st.st_size
                else:
                    dmt, sz = 0, -1
                rec_sz = ents_inc.get(n, (None,))[0]
                flist[n] = {'name': n, 'modified': bool(kind in ('same', 'size', 'touch', 'revert') or mid),
                            'dmt': max(min(dmt, 2000000000), -2000000000),
                            'sizediff': bool(exists and rec_sz is not None and rec_sz != sz),
                            'added': bool(exists and rec_sz is None), 'deleted': bool(not exists and rec_sz is not None),
                            'stale_before': bool(n in stale_before and n not in pending_mid_prev),
                            'same': True, 'true': True}
            mk, md = ops.get('sub/Manifest', (None, None))
            if mk == 'revert' and flist.get('sub/Manifest', {}).get('dmt', 1) <= 0:
                # the sub-Manifest was edited WITHOUT getting a newer mtime: outside the property's precondition,
                # and what it says about the files of sub/ is excused with it
                for n in names:
                    if n.startswith('sub/') and n != 'sub/Manifest' and n in flist:
                        flist[n]['stale_before'] = True
            pending_mid = []
            if rng.random() < 0.3:
                # a partial update (of sub/ only) on both replicas first: it must leave the TIMESTAMP alone,
                # or the files modified elsewhere since the last whole-tree update would be skipped below
                for root in (A, B):
                    gem.run_cli(['update', '--hashes', 'SHA1', os.path.join(root, 'sub')])
            # the incremental update, with an optional modification of an already hashed file
            inject = rng.random() < 0.4
            state = {'n': 0, 'done': False, 'seen': []}
            k_inject = rng.randrange(1, 4)

            def wrapper(path, e, *a, **kw):
                r = old_uefp(path, e, *a, **kw)
                state['n'] += 1
                rel = os.path.relpath(path, A)
                if not rel.startswith('..') and 'Manifest' not in rel:
                    state['seen'].append(rel)
                if inject and not state['done'] and state['n'] >= k_inject and state['seen']:
                    tgt = state['seen'][0]
                    for root in (A, B):
                        p = os.path.join(root, tgt)
                        if os.path.exists(p):
                            old = open(p, 'rb').read()
                            open(p, 'wb').write(bytes([old[0] ^ 2]) + old[1:])
                            ns = int(round((_Clock.now + 0.3) * 1e9))
                            os.utime(p, ns=(ns, ns))
                    pending_mid.append(tgt)
                    state['done'] = True
                return r
            scan_start = _Clock.now
            top_before = open(os.path.join(A, 'Manifest'), 'rb').read()
            # the requested hash set may change between rounds (SHA1 always among them)
            hs = rng.choice(['SHA1', 'SHA1', 'SHA1', 'SHA1 SHA256', 'MD5 SHA1'])
            import resource
            lim = resource.getrlimit(resource.RLIMIT_NOFILE)
            if fdcap:
                resource.setrlimit(resource.RLIMIT_NOFILE, (len(os.listdir('/proc/self/fd')) + 24, lim[1]))
            gem.gemato.recursiveloader.update_entry_for_path = wrapper
            try:
                oa = gem.run_cli(['update', '--incremental', '--hashes', hs, A])
            finally:
                gem.gemato.recursiveloader.update_entry_for_path = old_uefp
                resource.setrlimit(resource.RLIMIT_NOFILE, lim)
            # the full update on the other copy sees the tree as it was when the incremental one
            # hashed each file; the injected modification happened "after hashing" there as well:
            # so hash B with the pre-injection content: undo, update, redo
            undo = []
            for tgt in pending_mid:
                p = os.path.join(B, tgt)
                if os.path.exists(p):
                    cur = open(p, 'rb').read()
                    st = os.stat(p)
                    orig = bytes([cur[0] ^ 2]) + cur[1:]
                    open(p, 'wb').write(orig)
                    undo.append((p, cur, st.st_mtime_ns))
            if fdcap:
                resource.setrlimit(resource.RLIMIT_NOFILE, (len(os.listdir('/proc/self/fd')) + 24, lim[1]))
            try:
                ob = gem.run_cli(['update', '--hashes', hs, B])
            finally:
                resource.setrlimit(resource.RLIMIT_NOFILE, lim)
            for p, cur, ns in undo:
                open(p, 'wb').write(cur)
                os.utime(p, ns=(ns, ns))
            ok = oa['status'] == 0 and ob['status'] == 0 and oa['end'] == 'ok' and ob['end'] == 'ok'
            dts = 0
            if ok:
                ea, tsa = read_entries(A)
                eb, tsb = read_entries(B)
                dts = int(round((ts_epoch(tsa) - scan_start) * 1000))
                if open(os.path.join(A, 'Manifest'), 'rb').read() == top_before:
                    dts = 0       # nothing was written by this update: no TIMESTAMP "written by an update"
                dts = max(min(dts, 2000000000), -2000000000)
                for n in names:
                    fl = flist[n]
                    fl['same'] = ea.get(n) == eb.get(n)
                    p = os.path.join(A, n)
                    if os.path.exists(p) and n not in pending_mid:
                        data = open(p, 'rb').read()
                        fl['true'] = (ea.get(n) or ())[:2] == (len(data), hashlib.sha1(data).hexdigest())
                    elif not os.path.exists(p):
                        fl['true'] = n not in ea
            if ok and 'sub/Manifest' in flist and any(not flist[n]['same'] for n in names
                                                      if n.startswith('sub/') and n != 'sub/Manifest'):
                # the two sub-Manifests legitimately differ where a file below them does (a modification
                # that broke the precondition): the Manifest file itself is then not compared
                flist['sub/Manifest']['same'] = True
                flist['sub/Manifest']['true'] = True
            recs.append({'tz': tz, 'files': [flist[n] for n in names], 'dts': dts, 'ok': ok,
                         'meta': {'seed': seed, 'idx': idx, 'round': rnd, 'ops': {k: list(v) for k, v in ops.items()},
                                  'mid': list(pending_mid), 'tz': tz, 'hashes': hs, 'fdcap': fdcap,
                                  'err': (oa['errors'] + ob['errors'])[:3] if not ok else []}})
            if not ok:
                break
        return recs
    finally:
        gem.gemato.cli.datetime = old_dtmod
        for m in dt_users:
            m.datetime = _dt
        for m in tm_users:
            m.time = _time
        gem.gemato.recursiveloader.update_entry_for_path = old_uefp
        if old_tz is None:
            os.environ.pop('TZ', None)
        else:
            os.environ['TZ'] = old_tz
        time.tzset()
        shutil.rmtree(base, ignore_errors=True)
