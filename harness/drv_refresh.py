"""Key refresh (Refresh.tla): scenarios exported by TLC are run through the real
IsolatedGPGEnvironment.refresh_keys() with real gpg, a substituted `requests` module (WKD answers)
and a loopback HKP server; every gpg invocation and HTTP request is logged as one event and the
final keyring is read back with plain gpg.  No hook in gemato: the environment class is subclassed
here and `gemato.openpgp.requests` is a module attribute."""
import hashlib
import io
import os
import random
import threading
from http.server import BaseHTTPRequestHandler, HTTPServer
from urllib.parse import parse_qs, urlparse

from . import gpgenv

ADDR = {'a': 'alice@example.com', 'a2': 'alice2@example.com', 'b': 'bob@example.org'}
BODY = 'TIMESTAMP 2024-01-01T00:00:00Z\nDATA a.txt 3 SHA256 %s\n' % hashlib.sha256(b'abc').hexdigest()


def _genkey(h, uid, past=False):
    if past:
        h.run(['--faked-system-time', '20200101T000000', '--pinentry-mode', 'loopback', '--passphrase', '',
               '--quick-generate-key', uid, 'ed25519', 'sign', '30d'], check=True)
    else:
        h.run(['--pinentry-mode', 'loopback', '--passphrase', '', '--quick-generate-key', uid, 'ed25519',
               'sign', 'never'], check=True)
    rc, out, err = h.run(['--with-colons', '--list-keys', '=' + uid], check=True)
    return [l.split(':')[9] for l in out.decode().splitlines() if l.startswith('fpr:')][0]


def build_material():
    """Physical keys for the abstract ones.  A comes in four kinds (one or two mail addresses x valid or
    expired as the key file has it), B with or without a mail address, M claims A's address.
    -> dict: fpr[name], blob[name][u] (binary key blocks), signed[name] (cleartext message)"""
    h = gpgenv.Home()
    fpr, blob, signed = {}, {}, {}
    try:
        spec = {'A1v': ('Alice <%s>' % ADDR['a'], False, [ADDR['a2']][:0]),
                'A1x': ('Alice Old <%s>' % ADDR['a'], True, []),
                'A2v': ('Alice Two <%s>' % ADDR['a'], False, [ADDR['a2']]),
                'A2x': ('Alice Two Old <%s>' % ADDR['a'], True, [ADDR['a2']]),
                'Bm': ('Bob <%s>' % ADDR['b'], False, []),
                'Bn': ('Bob without mail', False, []),
                'M': ('Mallory <%s>' % ADDR['a'], False, [])}
        for name, (uid, past, more) in spec.items():
            f = _genkey(h, uid, past)
            fpr[name] = f
            for extra in more:
                args = ['--pinentry-mode', 'loopback', '--passphrase', '']
                if past:
                    args = ['--faked-system-time', '20200102T000000'] + args
                h.run(args + ['--quick-add-uid', f, 'Alice Second <%s>' % extra], check=True)
            signed[name] = h.clearsign(BODY, keyid=f, extra=(['--faked-system-time', '20200105T000000'] if past else []))
        for name, f in fpr.items():
            same = h.run(['--export', f], check=True)[1]
            revf = os.path.join(h.path, 'openpgp-revocs.d', f + '.rev')
            rev = open(revf).read().replace(':-----BEGIN', '-----BEGIN').encode()
            h2 = h.clone()
            try:
                h2.run(['--import'], rev, check=True)
                revb = h2.run(['--export', f], check=True)[1]
            finally:
                h2.close()
            h3 = h.clone()
            try:
                h3.run(['--pinentry-mode', 'loopback', '--passphrase', '', '--quick-set-expire', f, '10y'], check=True)
                ext = h3.run(['--export', f], check=True)[1]
            finally:
                h3.close()
            blob[name] = {'same': same, 'rev': revb, 'ext': ext}
    finally:
        h.close()
    return {'fpr': fpr, 'blob': blob, 'signed': signed}


# ---- substituted `requests` -------------------------------------------------------------------------
class _Exc:
    class ConnectionError(Exception):
        pass

    class HTTPError(Exception):
        pass


class _Resp:
    def __init__(self, content, status=200):
        self.content = content
        self.status = status

    def raise_for_status(self):
        if self.status != 200:
            raise _Exc.HTTPError('%d' % self.status)


class FakeRequests:
    exceptions = _Exc

    def __init__(self, table, log, rng):
        self.table, self.log, self.rng = table, log, rng    # url -> (address, kind, bytes)

    def get(self, url, proxies=None):
        a, kind, body = self.table[url]
        self.log.append({'ev': 'fetch', 'a': a, 'out': 'fail' if kind == 'fail' else 'ok'})
        if kind == 'fail':
            if self.rng.random() < 0.5:
                raise _Exc.ConnectionError(url)
            return _Resp(b'not found', 404)
        return _Resp(body)


# ---- loopback HKP server (one per worker process) ---------------------------------------------------
_HKP = {}


class _Hkp(BaseHTTPRequestHandler):
    def log_message(self, *a, **k):
        pass

    def do_GET(self):
        qs = parse_qs(urlparse(self.path).query)
        key = qs.get('search', [''])[0][2:].upper()
        body = _HKP['keys'].get(key)
        if body is None:
            self.send_error(404, 'Not found')
            return
        self.send_response(200, 'OK')
        self.send_header('Content-type', 'application/pgp-keys')
        self.end_headers()
        self.wfile.write(body)
        self.wfile.flush()


def hkp_addr():
    if 'srv' not in _HKP or _HKP.get('pid') != os.getpid():
        srv = HTTPServer(('127.0.0.1', 0), _Hkp)
        _HKP.update(srv=srv, keys={}, pid=os.getpid())
        threading.Thread(target=srv.serve_forever, daemon=True).start()
    return 'hkp://127.0.0.1:%d' % _HKP['srv'].server_address[1]


# ---- one scenario ------------------------------------------------------------------------------------
def physical(beh):
    """abstract key -> physical key name for this scenario"""
    two = len(beh['mail']['A']) > 1
    ax = beh['ring0']['A'] == 'expired'
    return {'A': 'A%d%s' % (2 if two else 1, 'x' if ax else 'v'),
            'B': 'Bm' if beh['mail']['B'] else 'Bn', 'M': 'M'}


def run_scenario(args):
    beh, mat, seed = args
    from . import gem
    op = gem.gemato.openpgp
    rng = random.Random('refresh-%d-%s' % (seed, sorted(beh['ring0'].items())))
    phys = physical(beh)
    fpr = dict((k, mat['fpr'][phys[k]]) for k in phys)
    name_of = dict((v, k) for k, v in fpr.items())
    blob = lambda b: mat['blob'][phys[b['k']]][b['u']]   # noqa: E731
    log = []

    class LoggingEnv(op.IsolatedGPGEnvironment):
        __slots__ = []

        def _spawn_gpg(self, argv, *a, **kw):
            roe = kw.pop('raise_on_error', None)
            rc, out, err = super()._spawn_gpg(argv, *a, **kw)
            if '--list-keys' in argv:
                log.append({'ev': 'list'})
            elif '--import' in argv:
                oks = [l.split(b' ')[3].decode() for l in out.splitlines() if l.startswith(b'[GNUPG:] IMPORT_OK')]
                log.append({'ev': 'import', 'rc': rc, 'ok': [name_of.get(f, '?') for f in oks]})
            elif '--delete-keys' in argv:
                log.append({'ev': 'delete', 'k': name_of.get(argv[-1], '?'), 'rc': rc})
            elif '--refresh-keys' in argv:
                log.append({'ev': 'refresh', 'rc': rc})
            if roe is not None and rc != 0:
                raise roe(err.decode('utf8', errors='backslashreplace'))
            return rc, out, err

    # the key file
    keyfile = b''
    for k in ('A', 'B'):
        st = beh['ring0'][k]
        if st != 'absent':
            keyfile += mat['blob'][phys[k]]['rev' if st == 'revoked' else 'same']
    table = {}
    for a, ans in beh['serve'].items():
        body = b''
        if ans['kind'] == 'garbage':
            body = b'this is no OpenPGP data\n'
        elif ans['kind'] == 'keys':
            bl = list(ans['blobs'])
            rng.shuffle(bl)
            body = b''.join(blob(b) for b in bl)
        table[op.get_wkd_url(ADDR[a])] = (a, ans['kind'], body)
    addr = hkp_addr()
    _HKP['keys'].clear()
    if beh['ks']['up']:
        for k, ans in beh['ks']['m'].items():
            if ans['kind'] == 'keys':
                _HKP['keys'][fpr[k]] = b''.join(blob(b) for b in ans['blobs'])
    else:
        addr = 'hkp://127.0.0.1:9'
    saved = op.requests
    env = LoggingEnv()
    try:
        env.import_key(io.BytesIO(keyfile))
        del log[:]
        op.requests = FakeRequests(table, log, rng) if beh['req'] else None
        try:
            env.refresh_keys(allow_wkd=beh['wkd'], keyserver=addr)
            result = 'ok'
        except op.OpenPGPKeyRefreshError:
            result = 'RefreshError'
        except Exception as e:  # noqa
            result = 'internal:' + type(e).__name__
        events = [dict(e) for e in log]
        op.requests = saved
        # read the keyring back with plain gpg
        vh = gpgenv.Home(env.home)
        rc, out, err = vh.run(['--with-colons', '--list-keys'])
        ring = dict((k, 'absent') for k in fpr)
        cur = None
        for l in out.decode('utf8', 'replace').splitlines():
            f = l.split(':')
            if f[0] == 'pub':
                cur = {'r': 'revoked', 'e': 'expired'}.get(f[1], 'valid')
            elif f[0] == 'fpr' and cur is not None:
                if f[9] in name_of:
                    ring[name_of[f[9]]] = cur
                cur = None
        rc, out, err = vh.run(['--export-ownertrust'])
        trust = sorted(name_of[l.split(':')[0]] for l in out.decode().splitlines()
                       if not l.startswith('#') and l.split(':')[0] in name_of and int(l.split(':')[1]) >= 5)
        accept = {}
        for k in fpr:
            try:
                accept[k] = env.verify_file(io.StringIO(mat['signed'][phys[k]])) is not None
            except gem.GematoException:
                accept[k] = False
    finally:
        op.requests = saved
        env.close()
    # the same scenario through the command line (`gemato verify -K keyfile` refreshes unless -R is given):
    # a tree whose top-level Manifest is signed by A
    cli = {'ran': False, 'exit': 0, 'end': '', 'left': 0}
    if beh.get('cli'):
        import shutil
        import tempfile
        from . import tlc
        base = tlc.scratch_dir('rfcli')
        old_tmp = tempfile.tempdir
        try:
            tree = os.path.join(base, 'tree')
            os.makedirs(tree)
            with open(os.path.join(tree, 'a.txt'), 'wb') as f:
                f.write(b'abc')
            with open(os.path.join(tree, 'Manifest'), 'w') as f:
                f.write(mat['signed'][phys['A']])
            kf = os.path.join(base, 'key.bin')
            with open(kf, 'wb') as f:
                f.write(keyfile)
            tmpd = os.path.join(base, 'tmp')
            os.makedirs(tmpd)
            tempfile.tempdir = tmpd
            _HKP['keys'].clear()
            if beh['ks']['up']:
                for k, ans in beh['ks']['m'].items():
                    if ans['kind'] == 'keys':
                        _HKP['keys'][fpr[k]] = b''.join(blob(b) for b in ans['blobs'])
            op.requests = FakeRequests(table, [], rng) if beh['req'] else None
            argv = ['verify', '-K', kf, '--keyserver', addr] + ([] if beh['wkd'] else ['--no-wkd']) + [tree]
            obs = gem.run_cli(argv)
            cli = {'ran': True, 'exit': obs['status'] if obs['status'] is not None else -1, 'end': obs['end'],
                   'left': len(os.listdir(tmpd))}
        finally:
            op.requests = saved
            tempfile.tempdir = old_tmp
            shutil.rmtree(base, ignore_errors=True)
    for e in events:
        e.setdefault('a', '')
        e.setdefault('k', '')
        e.setdefault('rc', 0)
        e.setdefault('out', '')
        e.setdefault('ok', [])
    rec = {'mail': dict((k, sorted(v)) for k, v in beh['mail'].items()), 'ring0': beh['ring0'],
           'wkd': beh['wkd'], 'req': beh['req'],
           'serve': dict((a, {'kind': x['kind'], 'blobs': list(x['blobs'])}) for a, x in beh['serve'].items()),
           'ks': {'up': beh['ks']['up'], 'm': dict((k, {'kind': x['kind'], 'blobs': list(x['blobs'])})
                                                   for k, x in beh['ks']['m'].items())},
           'events': events, 'result': result, 'ring': ring, 'trust': trust, 'accept': accept, 'cli': cli,
           'model': {'result': beh['result'], 'ring': beh['ring'], 'trust': sorted(beh['trust'])}}
    return rec
