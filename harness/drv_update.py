"""Direction-2 driver for update steps (C03, C10, C12, C13): seeded trees with every kind of prior
Manifest state, stateful histories of lookup / verify / update / save / discard on the real
loader and through the CLI, byte-level snapshots after every operation, projections before and
after every save.  Records are judged by TraceUpdate.tla."""
import hashlib
import os
import random
import shutil

from . import fsmodel as fm
from . import gen
from . import tlc

MF_BASENAMES = ('Manifest', 'Manifest.gz', 'Manifest.bz2', 'Manifest.lzma', 'Manifest.xz')
HASHSETS = [['SHA256'], ['SHA1', 'SHA512'], ['BLAKE2B', 'SHA512'], ['MD5'], ['SHA3_256', 'BLAKE2S']]


def raw_snapshot(root):
    """relpath -> (kind, digest-or-target, mtime_ns) for everything physically under root"""
    snap = {}
    for dp, dn, fn in os.walk(root, followlinks=False):
        for n in dn + fn:
            fp = os.path.join(dp, n)
            rel = os.path.relpath(fp, root)
            st = os.lstat(fp)
            if os.path.islink(fp):
                snap[rel] = ('link', os.readlink(fp), 0)
            elif os.path.isdir(fp):
                snap[rel] = ('dir', '', 0)
            elif os.path.isfile(fp):
                with open(fp, 'rb') as f:
                    snap[rel] = ('file', hashlib.sha1(f.read()).hexdigest(), st.st_mtime_ns)
            else:
                snap[rel] = ('other', '', 0)
    return snap


def diff_snap(a, b):
    return sorted(p for p in set(a) | set(b) if a.get(p) != b.get(p))


def is_manifest_name(rel, owned):
    """Manifest files are what update owns: the standard names, and anything that is (or is a
    re-compressed variant of) a Manifest referenced by a MANIFEST entry before or after"""
    lp = fm.logical_path(rel)
    return os.path.basename(rel) in MF_BASENAMES or any(fm.logical_path(o) == lp for o in owned)


def perturb_prior(rng, L, root):
    """Extra prior Manifest states on top of random_layout's: unregistered sub-Manifests (valid /
    invalid), stale references.  Returns list of descriptions."""
    out = []
    dirs = [d for d in L.dirs[1:] if os.path.isdir(os.path.join(root, d)) and not os.path.islink(os.path.join(root, d))
            and not any(c.startswith('.') for c in d.split('/'))
            and not any(os.path.dirname(m) == d for m in L.mf)]
    if dirs and rng.random() < 0.35:
        d = rng.choice(dirs)
        kind = rng.choice(['valid', 'valid_dup', 'garbage', 'badgz', 'empty'])
        comp = rng.choice(gen.COMPS) if kind != 'badgz' else 'gz'
        mp = d + '/Manifest' + ('' if comp == 'plain' else '.' + comp)
        fp = os.path.join(root, mp)
        if kind in ('valid', 'valid_dup'):
            ents = []
            for p, data in sorted(L.files.items()):
                if os.path.dirname(p) == d and not os.path.basename(p).startswith('.') \
                        and os.path.isfile(os.path.join(root, p)):
                    with open(os.path.join(root, p), 'rb') as f:
                        cur = f.read()
                    ents.append(fm.make_entry('DATA', os.path.basename(p), cur if kind == 'valid' else data,
                                              rng.choice(HASHSETS)))
            with open(fp, 'wb') as f:
                f.write(fm.manifest_bytes(ents, comp))
        elif kind == 'garbage':
            with open(fp, 'wb') as f:
                f.write(fm.compress(b'this is not a Manifest\n', comp))
        elif kind == 'badgz':
            with open(fp, 'wb') as f:
                f.write(b'not gzip data at all')
        else:
            with open(fp, 'wb') as f:
                f.write(fm.compress(b'', comp))
        out.append({'prior': 'unregistered_' + kind, 'p': mp})
        if kind == 'valid' and rng.random() < 0.3 and os.path.isfile(os.path.join(root, 'Manifest')):
            # ... that the top-level Manifest lists as a plain file
            with open(fp, 'rb') as f:
                raw = f.read()
            with open(os.path.join(root, 'Manifest'), 'ab') as f:
                f.write(fm.manifest_bytes([fm.make_entry('DATA', mp, raw, ['SHA256'])]))
            out[-1]['prior'] = 'unregistered_valid_listed_as_data'
        elif kind == 'valid' and comp == 'plain' and rng.random() < 0.4:
            # ... and reachable only through a second unregistered Manifest of the same directory
            with open(fp, 'rb') as f:
                raw = f.read()
            c2 = rng.choice(['gz', 'bz2', 'xz'])
            with open(fp + '.' + c2, 'wb') as f:
                f.write(fm.manifest_bytes([fm.make_entry('MANIFEST', 'Manifest', raw, ['SHA256'])], c2))
            out[-1]['prior'] = 'unregistered_pair'
    if rng.random() < 0.12 and os.path.isfile(os.path.join(root, 'Manifest')):
        # a sub-Manifest listed as plain DATA as well, right BEFORE its MANIFEST line (whatever follows
        # that line - often an entry the edits below make stale - must still be seen by the update)
        with open(os.path.join(root, 'Manifest'), 'rb') as f:
            lines = f.read().decode('utf8').split('\n')
        idxs = [i for i, ln in enumerate(lines) if ln.startswith('MANIFEST ')]
        if idxs:
            i = rng.choice(idxs)
            lines.insert(i, rng.choice(['DATA', 'DATA', 'EBUILD']) + lines[i][len('MANIFEST'):])
            with open(os.path.join(root, 'Manifest'), 'wb') as f:
                f.write('\n'.join(lines).encode('utf8'))
            out.append({'prior': 'manifest_also_data', 'p': lines[i].split(' ')[1]})
    plain_subs = [m for m in sorted(L.mf) if m != 'Manifest' and fm.compression_of(m) == 'plain'
                  and os.path.basename(m) == 'Manifest' and os.path.isfile(os.path.join(root, m))]
    if plain_subs and rng.random() < 0.06:
        # a sub-Manifest holding an entry for itself (DATA or MANIFEST): no such entry can be right
        m = rng.choice(plain_subs)
        with open(os.path.join(root, m), 'ab') as f:
            f.write(rng.choice([b'DATA Manifest 0\n', b'MANIFEST Manifest 5 MD5 00\n']))
        out.append({'prior': 'sub_lists_itself', 'p': m})
    if rng.random() < 0.06 and os.path.isfile(os.path.join(root, 'Manifest')):
        # the top-level Manifest lists itself: no entry for it can ever be right, the update has to drop it
        with open(os.path.join(root, 'Manifest'), 'ab') as f:
            f.write(rng.choice([b'DATA Manifest 0\n', b'MISC Manifest 71 SHA1 c016a9b7204924fca3ffe05759a2723887b284cf\n']))
        out.append({'prior': 'self_listed', 'p': 'Manifest'})
    return out


EDITS = ['delete', 'alter_same', 'alter_size', 'stray', 'stray_dir', 'touch']


def abs_opts(o):
    return {'sort': {None: 'unset', True: 'on', False: 'off'}[o.get('sort')], 'force': bool(o.get('force')),
            'wm': -1 if o.get('wm') is None else o['wm'], 'fmt': o.get('fmt') or 'gz',
            'profile': o.get('profile', 'default'), 'ts': bool(o.get('ts')), 'incremental': False}


class OrderedScandir:
    """os.scandir replacement returning entries sorted by name, ascending or descending"""

    def __init__(self, real, path, reverse):
        self._it = real(path)
        self._ents = iter(sorted(self._it, key=lambda e: e.name, reverse=reverse))

    def __iter__(self):
        return self

    def __next__(self):
        return next(self._ents)

    def __enter__(self):
        return self

    def __exit__(self, *a):
        self.close()

    def close(self):
        self._it.close()


def run_history(root, L, rng, namer, opts, meta, cli=False):
    """One history on the tree at root.  -> list of records"""
    real_scandir = os.scandir
    if opts.get('scandir_order'):
        rev = opts['scandir_order'] == 'desc'
        os.scandir = lambda p='.', _r=real_scandir, _v=rev: OrderedScandir(_r, p, _v)
    try:
        return _run_history(root, L, rng, namer, opts, meta, cli)
    finally:
        os.scandir = real_scandir


def _run_history(root, L, rng, namer, opts, meta, cli=False):
    from . import gem
    recs = []
    top = os.path.join(root, 'Manifest')
    hashes = opts['hashes']
    sub = opts['sub']
    owned0 = set()
    s0 = fm.project(root, 'Manifest', namer=namer)
    for m in s0['mfs']:
        owned0.add(_unname(namer, m['p']))
    snap0 = raw_snapshot(root)
    aopts = abs_opts(opts)
    # `gemato update` on the whole tree refreshes an existing TIMESTAMP by design
    aopts['ts'] = bool(cli and sub == '')
    ev = {'a': 'update_save', 'sub': namer.path(sub), 'hashes': sorted(hashes), 'opts': aopts,
          'end': 'ok', 'exc': '', 'cli': cli, 'stage': ''}
    before_save = []
    profile = gem.gemato.profile.get_profile_by_name(opts.get('profile', 'default'))
    if cli:
        argv = ['update', '-K', '/nonexistent'] if False else ['update']
        argv += ['--hashes', ' '.join(hashes)]
        if opts.get('profile', 'default') != 'default':
            argv += ['-p', opts['profile']]
        if opts.get('wm') is not None:
            argv += ['-c', str(opts['wm'])]
        if opts.get('fmt'):
            argv += ['-C', opts['fmt']]
        if opts.get('force'):
            argv += ['-f']
        argv += [os.path.join(root, sub) if sub else root]
        o = gem.run_cli(argv)
        if o['end'] != 'ok':
            ev.update(end=o['end'], exc=o['exc'], stage='cli')
        elif o['status'] != 0:
            ev.update(end='fail', exc=next((type(x).__name__ for x in o['error_objs'] if isinstance(x, Exception)), 'status1'),
                      stage='cli')
    else:
        kw = dict(hashes=list(hashes), profile=profile)
        if opts.get('sort') is not None:
            kw['sort'] = opts['sort']
        # the compression options are given to the loader, or to save_manifests(), or the watermark to the
        # loader and the format to the call: all the same
        how = rng.choice(['ctor', 'ctor', 'call', 'split'])
        skw_c = {}
        if opts.get('wm') is not None:
            (skw_c if how == 'call' else kw)['compress_watermark'] = opts['wm']
        if opts.get('fmt'):
            (kw if how == 'ctor' else skw_c)['compress_format'] = opts['fmt']
        obs, ld = gem.call(gem.loader, top, **kw)
        if obs['end'] != 'ok':
            ev.update(end=obs['end'], exc=obs['exc'], stage='load')
        else:
            # a scan for not yet referenced Manifests in ANOTHER directory first (it loads that directory's
            # Manifests without checking them): what the later update refreshes is none of their business
            if opts.get('prescan'):
                gem.call(ld.load_unregistered_manifests, opts['prescan'], verify_manifests=False)
            # optional read-only operations first: none of them may write
            for _ in range(rng.randrange(0, 3)):
                which = rng.choice(['find', 'verify', 'vdir'])
                if which == 'find' and L.files:
                    gem.call(ld.find_path_entry, rng.choice(sorted(L.files)))
                elif which == 'verify' and L.files:
                    gem.call(ld.verify_path, rng.choice(sorted(L.files)))
                else:
                    gem.call(ld.assert_directory_verifies, '', fail_handler=lambda e: True)
            obs, _ = gem.call(ld.update_entries_for_directory, sub)
            snap1 = raw_snapshot(root)
            before_save = diff_snap(snap0, snap1)
            if obs['end'] != 'ok':
                ev.update(end=obs['end'], exc=obs['exc'], stage='update')
            else:
                skw = dict(skw_c)
                if opts.get('force'):
                    skw['force'] = True
                obs, _ = gem.call(ld.save_manifests, **skw)
                if obs['end'] != 'ok':
                    ev.update(end=obs['end'], exc=obs['exc'], stage='save')
    snap2 = raw_snapshot(root)
    s1 = fm.project(root, 'Manifest', namer=namer)
    owned = set(owned0)
    for m in s1['mfs']:
        owned.add(_unname(namer, m['p']))
    # logical directories that are the updated directory (or lie inside it) under another name -
    # reached through a symlinked directory: what is written there is written inside `sub`
    aliases = []
    if sub:
        rsub = os.path.realpath(os.path.join(root, sub))
        for n in s0['nodes'] + s1['nodes']:
            if n['k'] == 'dir' and n['p'] not in aliases:
                rp = os.path.realpath(os.path.join(root, _unname(namer, n['p'])))
                if (rp == rsub or rp.startswith(rsub + os.sep)) and n['p'] != namer.path(sub):
                    aliases.append(n['p'])
    ev['aliases'] = aliases
    # one physical Manifest file under two logical names (before or after)
    byreal = {}
    for m in s0['mfs'] + s1['mfs']:
        lp = _unname(namer, m['p'])
        rp = os.path.join(os.path.realpath(os.path.join(root, os.path.dirname(lp))), os.path.basename(lp))
        byreal.setdefault(rp, set()).add(lp)
    ev['mf_alias'] = any(len(v) > 1 for v in byreal.values())
    changed = diff_snap(snap0, snap2)
    nonmf = [p for p in changed if not is_manifest_name(p, owned)]
    written = [p for p in changed if is_manifest_name(p, owned) and p in snap2]
    removed = [p for p in changed if is_manifest_name(p, owned) and p not in snap2]
    rec = {'kind': 'step', 's0': s0, 's1': s1, 'ev': ev,
           'before_save': [namer.path(p) for p in before_save],
           'nonmf_changed': [namer.path(p) for p in nonmf],
           'written': [namer.path(p) for p in written],
           'removed': [namer.path(p) for p in removed],
           'second_changed': [], 'verify_after': '', 'second_end': '', 'same_loader': '',
           'meta': dict(meta, opts={k: v for k, v in opts.items()}, cli=cli)}
    if ev['end'] == 'ok':
        # fresh verification of what was updated
        obs, ld2 = gem.call(gem.loader, os.path.join(root, _unname(namer, s1['top'])))
        if obs['end'] == 'ok':
            obs, r = gem.call(ld2.assert_directory_verifies, sub)
        rec['verify_after'] = obs['end'] + (':' + obs['exc'] if obs['exc'] else '')
        # idempotence: the same update again on the unchanged tree
        if not opts.get('force'):
            snap3 = raw_snapshot(root)
            kw2 = dict(hashes=list(hashes), profile=gem.gemato.profile.get_profile_by_name(opts.get('profile', 'default')))
            if opts.get('sort') is not None:
                kw2['sort'] = opts['sort']
            if opts.get('wm') is not None:
                kw2['compress_watermark'] = opts['wm']
            if opts.get('fmt'):
                kw2['compress_format'] = opts['fmt']
            obs, ld3 = gem.call(gem.loader, os.path.join(root, _unname(namer, s1['top'])), **kw2)
            if obs['end'] == 'ok':
                obs, _ = gem.call(ld3.update_entries_for_directory, sub)
            if obs['end'] == 'ok':
                obs, _ = gem.call(ld3.save_manifests)
            rec['second_end'] = obs['end'] + (':' + obs['exc'] if obs['exc'] else '')
            rec['second_changed'] = [namer.path(p) for p in diff_snap(snap3, raw_snapshot(root))]
        # a further edit + update + save on the SAME loader object (library users keep one loader; the
        # Manifests it renamed while (de)compressing must still be saved in the right order), then a
        # fresh verification.  Last, because it changes the tree.
        if not cli and opts.get('extra_round', True) and rec['second_end'] in ('ok', '') \
                and rec['verify_after'] == 'ok' and rng.random() < 0.4:
            cands = [p for p in sorted(L.files) if os.path.isfile(os.path.join(root, p))
                     and (not sub or p.startswith(sub + '/'))
                     and not any(c.startswith('.') for c in p.split('/'))]
            if cands:
                p = rng.choice(cands)
                with open(os.path.join(root, p), 'ab') as f:
                    f.write(b'~second round')
                obs, _ = gem.call(ld.update_entries_for_directory, sub)
                if obs['end'] == 'ok':
                    obs, _ = gem.call(ld.save_manifests)
                if obs['end'] == 'ok':
                    obs, ld4 = gem.call(gem.loader, os.path.join(root, ld.top_level_manifest_filename))
                    if obs['end'] == 'ok':
                        obs, _ = gem.call(ld4.assert_directory_verifies, sub)
                rec['same_loader'] = obs['end'] + (':' + obs['exc'] if obs['exc'] else '')
                rec['meta']['same_loader_edit'] = p
    recs.append(rec)
    return recs


def _unname(namer, comps):
    inv = dict((v, k) for k, v in namer.tok.items())
    return '/'.join(inv.get(c, c) for c in comps)


def one_update(args):
    seed, idx, o = args
    rng = random.Random('update-%d-%d' % (seed, idx))
    root = tlc.scratch_dir('vu')
    try:
        L = gen.random_layout(rng, links=(rng.random() < 0.3))
        twin = None
        if rng.random() < 0.08:
            # two Manifests of one logical name in a directory, both in use (Manifest and Manifest.gz):
            # (de)compressing one must not overwrite the other
            mp = rng.choice(sorted(m for m in L.mf if 'extra' not in m))
            base_ = mp[:-len(fm.compression_of(mp)) - 1] if fm.compression_of(mp) != 'plain' else mp
            others = [c for c in gen.COMPS if (base_ if c == 'plain' else base_ + '.' + c) not in L.mf]
            if others:
                c = rng.choice(others)
                newmp = base_ if c == 'plain' else base_ + '.' + c
                # it takes over some of the entries (or stays empty)
                take = [e for e in L.mf[mp] if e['tag'] in ('DATA', 'MISC', 'IGNORE') and rng.random() < 0.5]
                L.mf[mp] = [e for e in L.mf[mp] if not any(e is t for t in take)]
                L.mf[newmp] = take
                par = mp if mp == 'Manifest' else [g for g in L.governing(mp) if L.mdir(g) != L.mdir(mp)][0]
                L.mf[par].append({'tag': 'MANIFEST', 'path': L.rel(newmp, par), 'size': 0, 'ck': {'SHA256': ''}, 'ref': newmp})
                twin = newmp
        L.write(root)
        prior = perturb_prior(rng, L, root)
        if twin:
            prior.append({'prior': 'twin_manifest', 'p': twin})
        edits = []
        for _ in range(rng.choice([0, 1, 1, 2, 3])):
            m = gen.mutate(rng, L, root, kind=rng.choice(EDITS))
            if m:
                edits.append(m)
        dirs = [d for d in L.dirs if os.path.isdir(os.path.join(root, d))
                and not any(c.startswith('.') for c in d.split('/'))]
        sub = '' if rng.random() < 0.7 or len(dirs) < 2 else rng.choice(dirs[1:])
        deep = [d for d in dirs if d.count('/') >= 1 and any(
            m != 'Manifest' and os.path.dirname(m) and (d + '/').startswith(os.path.dirname(m) + '/')
            and os.path.dirname(m) != d for m in L.mf)]
        if sub and deep and rng.random() < 0.5:
            sub = rng.choice(deep)          # a directory below another sub-Manifest: there is a chain above it
        if sub and rng.random() < 0.6:
            # a reference that is ALREADY stale on the chain above the directory to be updated: a Manifest in a
            # proper ancestor directory was changed (one more DIST line) without its parent being told
            chain = [m for m in sorted(L.mf) if m != 'Manifest' and 'extra' not in m
                     and os.path.isfile(os.path.join(root, m))
                     and os.path.dirname(m) != sub and (sub + '/').startswith(os.path.dirname(m) + '/')]
            if chain:
                m = rng.choice(chain)
                c = fm.compression_of(m)
                try:
                    with open(os.path.join(root, m), 'rb') as f:
                        text = fm.decompress(f.read(), c)
                    if not text.startswith(b'-----'):
                        text += b'DIST stale-chain.tar 1 SHA256 ' + b'0' * 64 + b'\n'
                        with open(os.path.join(root, m), 'wb') as f:
                            f.write(fm.compress(text, c))
                        prior.append({'prior': 'stale_chain_above', 'p': m})
                except Exception:  # noqa
                    pass
        sizes = []
        for m in L.mf:
            fp = os.path.join(root, m)
            if os.path.isfile(fp):
                try:
                    sizes.append(len(fm.decompress(open(fp, 'rb').read(), fm.compression_of(m))))
                except Exception:  # noqa
                    pass
        wm = rng.choice([None, None, 0, 10**6] + [s + d for s in sizes for d in (-1, 0, 1)])
        if wm is not None and wm < 0:
            wm = 0
        opts = {'hashes': rng.choice(HASHSETS), 'sub': sub, 'sort': rng.choice([None, True, False]),
                'force': rng.random() < 0.2, 'wm': wm, 'fmt': rng.choice([None, 'gz', 'bz2', 'xz', 'lzma']),
                'profile': o.get('profile', 'default')}
        namer = fm.Namer()
        meta = {'seed': seed, 'idx': idx, 'prior': prior, 'edits': edits}
        return run_history(root, L, rng, namer, opts, meta, cli=(rng.random() < 0.25 and opts['sort'] is None))
    finally:
        shutil.rmtree(root, ignore_errors=True)


# ---------------------------------------------------------------------------------------------
# C12 Canon: the bytes of every written Manifest are a function of tree content and options

class ShuffledScandir:
    """os.scandir replacement returning entries in a seeded order (os.walk calls next() on it)"""

    def __init__(self, real, path, rng):
        self._it = real(path)
        ents = list(self._it)
        rng.shuffle(ents)
        self._ents = iter(ents)

    def __iter__(self):
        return self

    def __next__(self):
        return next(self._ents)

    def __enter__(self):
        return self

    def __exit__(self, *a):
        self.close()

    def close(self):
        self._it.close()


def manifest_bytes_map(root):
    out = []
    for dp, dn, fn in os.walk(root):
        for f in sorted(fn):
            if f.startswith('Manifest'):
                fp = os.path.join(dp, f)
                with open(fp, 'rb') as fh:
                    out.append([os.path.relpath(fp, root), hashlib.sha1(fh.read()).hexdigest()])
    return sorted(out)


def manifest_lines_map(root):
    """{logical Manifest path: list of lines} (decompressed), for the signatures of known findings"""
    out = {}
    for dp, dn, fn in os.walk(root):
        for f in sorted(fn):
            if f.startswith('Manifest'):
                fp = os.path.join(dp, f)
                try:
                    with open(fp, 'rb') as fh:
                        text = fm.decompress(fh.read(), fm.compression_of(f)).decode('utf8', 'replace')
                except Exception:  # noqa
                    continue
                out[fm.logical_path(os.path.relpath(fp, root))] = text.split('\n')
    return out


def canon_group(args):
    seed, idx, o = args
    from . import gem
    rng = random.Random('canon-%d-%d' % (seed, idx))
    base = tlc.scratch_dir('vcn')
    try:
        L = gen.random_layout(rng, links=False)
        # at most one Manifest per directory, no duplicate entries (C12 Canon's precondition)
        for mp in [m for m in L.mf if 'extra' in m]:
            del L.mf[mp]
        for mp in L.mf:
            L.mf[mp] = [e for e in L.mf[mp] if not (e['tag'] == 'MANIFEST' and e.get('ref') not in L.mf)]
            seen, keep = set(), []
            for e in L.mf[mp]:
                key = (os.path.join(os.path.dirname(mp), e['path']) if e['tag'] not in ('DIST', 'TIMESTAMP') else None)
                if key is not None and key in seen:
                    continue
                seen.add(key)
                keep.append(e)
            L.mf[mp] = keep
        # a file entry for one path in two Manifests is a duplicate as well
        allpaths = set()
        for mp in sorted(L.mf, key=lambda m: -m.count('/')):
            keep = []
            for e in L.mf[mp]:
                if e['tag'] in ('DIST', 'TIMESTAMP'):
                    keep.append(e)
                    continue
                full = os.path.join(os.path.dirname(mp), e['path'])
                if full in allpaths:
                    continue
                allpaths.add(full)
                keep.append(e)
            L.mf[mp] = keep
        # ... except, sometimes, one of two kinds of duplicates that an update does not resolve by looking at
        # the file: two DIST lines of one name (sort ties), or two entries of different but compatible
        # tags for one path (de-duplication keeps the first)
        inject = None
        r = rng.random()
        if r < 0.2:
            mp = rng.choice(sorted(L.mf))
            nm = 'dup-%d.tar' % rng.randrange(3)
            L.mf[mp].append({'tag': 'DIST', 'path': nm, 'size': 1, 'ck': {'SHA256': 'aa' * 32}})
            L.mf[mp].append({'tag': 'DIST', 'path': nm, 'size': 2, 'ck': {'SHA256': 'bb' * 32}})
            inject = {'kind': 'distdup', 'mf': mp, 'path': nm}
        elif r < 0.4:
            cands = [(mp, e) for mp in sorted(L.mf) for e in L.mf[mp] if e['tag'] in ('DATA', 'EBUILD')]
            if cands:
                mp, e = rng.choice(cands)
                e2 = dict(e, tag='EBUILD' if e['tag'] == 'DATA' else 'DATA', ck=dict(e['ck']))
                L.mf[mp].append(e2)
                inject = {'kind': 'tagdup', 'mf': mp, 'path': e['path']}
        src = os.path.join(base, 'src')
        os.mkdir(src)
        L.write(src)
        for _ in range(rng.choice([0, 1, 2])):
            gen.mutate(rng, L, src, kind=rng.choice(EDITS))
        hashes = rng.choice(HASHSETS)
        wm = rng.choice([None, 0, 100, 300, 10**6])
        fmt = rng.choice([None, 'gz', 'bz2', 'xz'])
        out = []
        # group A: nothing forced, only the enumeration order varies.  group B: forced rewrite of
        # every Manifest (otherwise a Manifest that is not rewritten legitimately keeps its old
        # entry order and its parent's digest of it), walk order and old entry order vary.
        for group, vs, force in (('A', (0, 1), False), ('B', (0, 1, 2, 3), True)):
            variants = []
            descr = []
            texts = []
            for v in vs:
                dst = os.path.join(base, 'v%s%d' % (group, v))
                shutil.copytree(src, dst, symlinks=True)
                vr = random.Random('%d-%d-%d' % (seed, idx, v))
                if v in (2, 3):
                    # permute the entries of the pre-existing Manifests (then fix parents' references)
                    for mp in L.order():
                        fp = os.path.join(dst, mp)
                        if not os.path.isfile(fp):
                            continue
                        ents = [dict(e) for e in L.mf[mp]]
                        vr.shuffle(ents)
                        for e in ents:
                            if e['tag'] == 'MANIFEST' and e.get('ref'):
                                try:
                                    data = open(os.path.join(dst, e['ref']), 'rb').read()
                                    e['size'] = len(data)
                                    e['ck'] = dict((h, fm.digest(h, data)) for h in e['ck'])
                                except OSError:
                                    pass
                            # ... and the order of the checksums within a line (the written line has them
                            # sorted by name whatever the previous line looked like)
                            if len(e.get('ck') or {}) > 1 and not e.get('ckl'):
                                pairs = [[h, e['ck'][h]] for h in e['ck']]
                                vr.shuffle(pairs)
                                e['ckl'] = pairs
                        with open(fp, 'wb') as f:
                            f.write(fm.manifest_bytes(ents, fm.compression_of(mp)))
                pre = raw_snapshot(dst)
                real = os.scandir
                if v in (1, 3):
                    os.scandir = lambda p='.', _r=real, _g=vr: ShuffledScandir(_r, p, _g)
                try:
                    kw = dict(hashes=list(hashes), sort=True)
                    if wm is not None:
                        kw['compress_watermark'] = wm
                    if fmt:
                        kw['compress_format'] = fmt
                    obs, ld = gem.call(gem.loader, os.path.join(dst, 'Manifest'), **kw)
                    if obs['end'] == 'ok':
                        obs, _ = gem.call(ld.update_entries_for_directory, '')
                    if obs['end'] == 'ok':
                        obs, _ = gem.call(ld.save_manifests, force=force)
                finally:
                    os.scandir = real
                post = raw_snapshot(dst)
                if obs['end'] == 'ok':
                    variants.append([[p, dg, 'W' if pre.get(p) != post.get(p) else '-']
                                     for p, dg in manifest_bytes_map(dst)])
                    texts.append(manifest_lines_map(dst))
                else:
                    variants.append([['<failed>', obs['end'] + obs['exc'], 'W']])
                    texts.append({})
                descr.append({0: 'baseline', 1: 'shuffled walk', 2: 'permuted old entries', 3: 'both'}[v]
                             + (' forced' if force else ''))
            out.append({'kind': 'canon', 'variants': variants, 'descr': descr,
                        'meta': {'seed': seed, 'idx': idx, 'hashes': hashes, 'wm': wm, 'fmt': fmt,
                                 'group': group, 'inject': inject, 'texts': texts}})
        # group C: a SUB-DIRECTORY update with sorting; the top-level Manifest, rewritten for the chain, holds two
        # entries of one tag, path and size with different checksums for a path OUTSIDE the updated directory
        # (nothing de-duplicates those), in either order: the sorted text must not depend on that order
        subdirs = [d for d in L.dirs[1:] if os.path.isdir(os.path.join(src, d)) and '/' not in d
                   and not d.startswith('.') and not os.path.islink(os.path.join(src, d))
                   and os.path.isfile(os.path.join(src, 'Manifest'))]
        if subdirs and inject is None:
            d = rng.choice(subdirs)
            variants, descr, texts = [], [], []
            dup = ['DATA zz-outside/x 1 SHA1 ' + 'aa' * 20, 'DATA zz-outside/x 1 SHA1 ' + 'bb' * 20]
            for v in (0, 1):
                dst = os.path.join(base, 'vC%d' % v)
                shutil.copytree(src, dst, symlinks=True)
                with open(os.path.join(dst, 'Manifest'), 'rb') as f:
                    old = f.read().decode('utf8').splitlines()
                lines = old + (dup if v == 0 else dup[::-1])
                with open(os.path.join(dst, 'Manifest'), 'wb') as f:
                    f.write(('\n'.join(lines) + '\n').encode('utf8'))
                with open(os.path.join(dst, d, 'canon-new-file'), 'wb') as f:
                    f.write(b'new in the updated directory')
                pre = raw_snapshot(dst)
                obs, ld = gem.call(gem.loader, os.path.join(dst, 'Manifest'), hashes=list(hashes), sort=True)
                if obs['end'] == 'ok':
                    obs, _ = gem.call(ld.update_entries_for_directory, d)
                if obs['end'] == 'ok':
                    obs, _ = gem.call(ld.save_manifests)
                post = raw_snapshot(dst)
                if obs['end'] == 'ok':
                    variants.append([[p, dg, 'W' if pre.get(p) != post.get(p) else '-']
                                     for p, dg in manifest_bytes_map(dst) if p == 'Manifest'])
                else:
                    variants.append([['<failed>', obs['end'] + obs['exc'], 'W']])
                texts.append({})
                descr.append('duplicates outside the updated directory, order %d' % v)
            out.append({'kind': 'canon', 'variants': variants, 'descr': descr,
                        'meta': {'seed': seed, 'idx': idx, 'hashes': hashes, 'wm': None, 'fmt': None,
                                 'group': 'C', 'inject': None, 'texts': texts, 'sub': d}})
        return out
    finally:
        shutil.rmtree(base, ignore_errors=True)


# ---------------------------------------------------------------------------------------------
# C13 Transparent: results do not depend on whether / how sub-Manifests are compressed

def transparent_group(args):
    seed, idx, o = args
    from . import gem
    rng = random.Random('transp-%d-%d' % (seed, idx))
    base = tlc.scratch_dir('vtr')
    try:
        L0 = gen.random_layout(rng, links=False, comps=['plain'])
        subs = [m for m in L0.mf if m != 'Manifest']
        muts_seed = rng.random()
        outcomes = []
        assigns = []
        files = sorted(L0.files)
        probe = rng.sample(files, min(3, len(files)))
        for v in range(4):
            vr = random.Random('%d-%d-%d' % (seed, idx, v))
            assign = dict((m, 'plain' if v == 0 else vr.choice(gen.COMPS)) for m in subs)
            # rename the Manifests of the layout according to the assignment
            L = gen.Layout(rng)
            L.dirs, L.files, L.links, L.mtimes = L0.dirs, L0.files, L0.links, L0.mtimes
            ren = dict((m, m + ('' if assign[m] == 'plain' else '.' + assign[m])) for m in subs)
            ren['Manifest'] = 'Manifest'
            for m, ents in L0.mf.items():
                L.mf[ren[m]] = []
                for e in ents:
                    e2 = dict(e)
                    if e2['tag'] == 'MANIFEST' and e2.get('ref') in ren:
                        e2['ref'] = ren[e2['ref']]
                        e2['path'] = L.rel(e2['ref'], ren[m])
                    L.mf[ren[m]].append(e2)
            dst = os.path.join(base, 'v%d' % v)
            os.mkdir(dst)
            L.write(dst)
            mr = random.Random(muts_seed)
            for _ in range(mr.choice([0, 1, 1, 2])):
                gen.mutate(mr, L0, dst, kind=mr.choice(['delete', 'alter_same', 'alter_size', 'stray', 'touch']), manifest_names=False)
            top = os.path.join(dst, 'Manifest')
            res = []
            obs, ld = gem.call(gem.loader, top)
            if obs['end'] == 'ok':
                reported = []
                obs, r = gem.call(ld.assert_directory_verifies, '',
                                  fail_handler=lambda e, rep=reported: rep.append(e.path) or False)
                res.append(['verify', obs['end'], obs['exc'], sorted(reported)])
                for pth in probe:
                    o2, e = gem.call(ld.find_path_entry, pth)
                    res.append(['find', pth, o2['end'],
                                [e.tag, e.path, getattr(e, 'size', 0), sorted(getattr(e, 'checksums', {}).items())]
                                if e is not None else None])
                    o3, vr_ = gem.call(ld.verify_path, pth)
                    res.append(['vpath', pth, o3['end'], bool(vr_[0]) if vr_ else None])
                o4, de = gem.call(ld.find_dist_entry, 'foo-1.tar.gz')
                res.append(['dist', o4['end'], de.size if de is not None else None])
            else:
                res.append(['load', obs['end'], obs['exc']])
            outcomes.append(res)
            assigns.append(sorted(assign.items()))
        import json
        return [{'kind': 'transparent', 'variants': [[['outcome', json.dumps(x, sort_keys=True), 'W']] for x in outcomes],
                 'descr': [json.dumps(a) for a in assigns], 'meta': {'seed': seed, 'idx': idx}}]
    finally:
        shutil.rmtree(base, ignore_errors=True)



# ---------------------------------------------------------------------------------------------
# directed family: sibling directories whose names are string- but not component-prefixes of each
# other, a sub-Manifest in the shorter-named one, both enumeration orders

PAIRS = [('d', 'da'), ('pkg', 'pkg-bin'), ('app', 'app.d'), ('x', 'x y'), ('lib', 'lib2')]


def lookalike_update(args):
    seed, idx, o = args
    from . import gem
    rng = random.Random('look-%d-%d' % (seed, idx))
    base = tlc.scratch_dir('vl')
    try:
        short, long_ = rng.choice(PAIRS)
        parent = rng.choice(['', 'cat'])
        pre = (parent + '/') if parent else ''
        L = gen.Layout(rng)
        L.dirs = [''] + ([parent] if parent else []) + [pre + short, pre + long_]
        comp = rng.choice(gen.COMPS)
        smf = pre + short + '/Manifest' + ('' if comp == 'plain' else '.' + comp)
        L.mf['Manifest'] = []
        L.mf[smf] = []
        hs = rng.choice(HASHSETS)
        for d, mp in ((pre + short, smf), (pre + long_, 'Manifest')):
            for n in rng.sample(['f1', 'f2', 'a b', 'zz'], rng.randrange(1, 3)):
                p = d + '/' + n
                L.files[p] = rng.choice([b'abc', b'abd', b'hello'])
                L.add_file_entry(mp, p, L.files[p], 'DATA', hs)
        L.files['top.txt'] = b'top'
        L.add_file_entry('Manifest', 'top.txt', b'top', 'DATA', hs)
        L.mf['Manifest'].append({'tag': 'MANIFEST', 'path': smf, 'size': 0, 'ck': {'SHA256': ''}, 'ref': smf})
        L.mf['Manifest'].append({'tag': 'DIST', 'path': 'd.tar', 'size': 1, 'ck': {}})
        src = os.path.join(base, 'src')
        os.mkdir(src)
        L.write(src)
        # edits: new files in both siblings, maybe a change
        for d in (pre + short, pre + long_):
            if rng.random() < 0.8:
                with open(os.path.join(src, d, 'new-%d' % rng.randrange(5)), 'wb') as f:
                    f.write(b'new file')
        if rng.random() < 0.5:
            p = rng.choice(sorted(L.files))
            with open(os.path.join(src, p), 'ab') as f:
                f.write(b'!')
        sub = rng.choice(['', '', pre + short, pre + long_])
        sort = rng.choice([True, True, None])
        recs = []
        variants = []
        for order in ('asc', 'desc'):
            dst = os.path.join(base, order)
            shutil.copytree(src, dst, symlinks=True)
            opts = {'hashes': hs, 'sub': sub, 'sort': sort, 'force': False, 'wm': None, 'fmt': None,
                    'profile': 'default', 'scandir_order': order, 'extra_round': False}
            namer = fm.Namer()
            pre_snap = raw_snapshot(dst)
            rr = run_history(dst, L, rng, namer, opts, {'seed': seed, 'idx': idx, 'lookalike': [short, long_], 'order': order})
            recs += rr
            post = raw_snapshot(dst)
            ok = rr and rr[0]['ev']['end'] == 'ok'
            variants.append([[p, dg, 'W' if pre_snap.get(p) != post.get(p) else '-'] for p, dg in manifest_bytes_map(dst)]
                            if ok else [['<failed>', 'x', 'W']])
        if sort:
            recs.append({'kind': 'canon', 'variants': variants, 'descr': ['ascending walk', 'descending walk'],
                         'meta': {'seed': seed, 'idx': idx, 'lookalike': [short, long_], 'sub': sub}})
        return recs
    finally:
        shutil.rmtree(base, ignore_errors=True)


def watermark_window(args):
    """Directed family for C13's watermark rule: the watermark is placed exactly around the size the
    rewritten sub-Manifest is going to have - counted in BYTES of its uncompressed text, which for
    non-ASCII paths differs from the number of characters."""
    seed, idx, o = args
    from . import gem
    rng = random.Random('wmwin-%d-%d' % (seed, idx))
    base = tlc.scratch_dir('vww')
    try:
        L = gen.Layout(rng)
        # (directory names that contain a Manifest name: a rename must touch the last component only)
        sd = rng.choice(['sub', 'sub', 'Manifest.d', 'Manifests', 'x/Manifest.gz.bak', 'Manifest.xz.d'])
        L.dirs = [''] + (['x'] if sd.startswith('x/') else []) + [sd]
        comp = rng.choice(gen.COMPS)
        smf = sd + '/Manifest' + ('' if comp == 'plain' else '.' + comp)
        L.mf['Manifest'] = []
        L.mf[smf] = []
        hs = rng.choice(HASHSETS)
        names = rng.sample(['żółć', 'Ünï', '😀', 'naïve-π.txt', 'плюс', 'a', 'b.txt', '日本'], rng.randrange(2, 6))
        for n in names:
            p = sd + '/' + n
            L.files[p] = ('content of ' + n).encode('utf8')
            L.add_file_entry(smf, p, L.files[p], 'DATA', hs)
        L.files['top.txt'] = b'top'
        L.add_file_entry('Manifest', 'top.txt', b'top', 'DATA', hs)
        L.mf['Manifest'].append({'tag': 'MANIFEST', 'path': smf, 'size': 0, 'ck': {'SHA256': ''}, 'ref': smf})
        src = os.path.join(base, 'src')
        os.mkdir(src)
        L.write(src)
        # what the sub-Manifest is going to look like
        probe = os.path.join(base, 'probe')
        shutil.copytree(src, probe, symlinks=True)
        obs, ld = gem.call(gem.loader, os.path.join(probe, 'Manifest'), hashes=list(hs))
        if obs['end'] == 'ok':
            obs, _ = gem.call(ld.update_entries_for_directory, '')
        if obs['end'] == 'ok':
            obs, _ = gem.call(ld.save_manifests, force=True)
        if obs['end'] != 'ok':
            return []
        try:
            with open(os.path.join(probe, smf), 'rb') as f:
                text = fm.decompress(f.read(), comp).decode('utf8')
            nbytes, nchars = len(text.encode('utf8')), len(text)
        except Exception:  # noqa
            # what was written under this name is not in the format the name promises (the harness's own
            # decoder refuses it): no window to aim at - the histories below are judged all the same
            nbytes, nchars = 200, 190
        recs = []
        wms = sorted(set([nchars - 1, nchars, nchars + 1, nbytes - 1, nbytes, nbytes + 1, (nchars + nbytes) // 2]))
        for k, wm in enumerate(rng.sample(wms, min(len(wms), 4))):
            dst = os.path.join(base, 'w%d' % k)
            shutil.copytree(src, dst, symlinks=True)
            opts = {'hashes': hs, 'sub': '', 'sort': None, 'force': True, 'wm': max(wm, 0),
                    'fmt': rng.choice(['gz', 'bz2', 'xz', 'lzma']), 'profile': 'default', 'extra_round': False}
            recs += run_history(dst, L, rng, fm.Namer(), opts,
                                {'seed': seed, 'idx': idx, 'wmwin': [nchars, nbytes, wm], 'prior': [], 'edits': []})
        return recs
    finally:
        shutil.rmtree(base, ignore_errors=True)


def twin_update(args):
    """Directed family for C10 (and C03): files of the same name and content at two levels, so that the
    entries of the outer and the inner Manifest compare EQUAL as values (tag, relative path, size, digests)
    although they describe different files; stale entries for vanished files on both levels; entries for
    files inside the sub-directory that live in the outer Manifest.  Whatever the update does to an entry
    must be done to the entry of THAT Manifest."""
    seed, idx, o = args
    rng = random.Random('twin-%d-%d' % (seed, idx))
    root = tlc.scratch_dir('vtw')
    try:
        L = gen.Layout(rng)
        sub = rng.choice(['pkg', 'a/pkg'])
        L.dirs = [''] + (['a'] if sub.startswith('a/') else []) + [sub, 'other']
        comp = rng.choice(gen.COMPS)
        smf = sub + '/Manifest' + ('' if comp == 'plain' else '.' + comp)
        L.mf['Manifest'] = []
        L.mf[smf] = []
        hs = rng.choice(HASHSETS)
        twins = rng.sample(['LICENSE', 'metadata.xml', 'empty', 'README'], rng.randrange(1, 4))
        for t in twins:
            data = b'' if t == 'empty' else ('twin content of ' + t).encode()
            tag = rng.choice(['DATA', 'DATA', 'MISC'])
            hs_in = hs if rng.random() < 0.8 else rng.choice(HASHSETS)
            L.files[t] = data
            L.files[sub + '/' + t] = data
            L.add_file_entry('Manifest', t, data, tag, hs)
            L.add_file_entry(smf, sub + '/' + t, data, tag, hs_in)
        # files of the sub-directory: listed inside, or in the outer Manifest, or in both
        for n in ('data', 'old.txt', 'keep'):
            p = sub + '/' + n
            L.files[p] = ('content of ' + n).encode()
            where = rng.choice(['in', 'out', 'both'])
            if where in ('in', 'both'):
                L.add_file_entry(smf, p, L.files[p], 'DATA', hs)
            if where in ('out', 'both'):
                L.add_file_entry('Manifest', p, L.files[p], 'DATA', hs)
        L.files['other/x'] = b'xx'
        L.add_file_entry('Manifest', 'other/x', b'xx', 'DATA', hs)
        L.mf['Manifest'].append({'tag': 'MANIFEST', 'path': smf, 'size': 0, 'ck': {'SHA256': ''}, 'ref': smf})
        L.mf['Manifest'].append({'tag': 'DIST', 'path': 'd.tar', 'size': 1, 'ck': {}})
        if rng.random() < 0.3:
            L.mf['Manifest'].append({'tag': 'IGNORE', 'path': 'other/junk'})
        if rng.random() < 0.6:
            L.mf['Manifest'].append({'tag': 'TIMESTAMP', 'path': '', 'size': 0, 'ck': {}, 'ts': '2017-01-01T01:01:01Z'})
        L.write(root)
        edits = []
        cands = [sub + '/' + t for t in twins] + [sub + '/data', sub + '/old.txt'] + \
            ([rng.choice(twins)] if rng.random() < 0.2 else [])
        for p in rng.sample(cands, rng.randrange(1, min(4, len(cands)) + 1)):
            fp = os.path.join(root, p)
            if os.path.exists(fp):
                if rng.random() < 0.75:
                    os.unlink(fp)
                    edits.append({'m': 'delete', 'p': p})
                else:
                    with open(fp, 'ab') as f:
                        f.write(b'+')
                    edits.append({'m': 'alter_size', 'p': p})
        opts = {'hashes': hs if rng.random() < 0.8 else rng.choice(HASHSETS), 'sub': rng.choice([sub, sub, '']),
                'sort': rng.choice([None, True, False]), 'force': False, 'wm': None, 'fmt': None, 'profile': 'default'}
        namer = fm.Namer()
        # through the command line half of the time (a sub-directory update must leave the TIMESTAMP alone)
        return run_history(root, L, rng, namer, opts, {'seed': seed, 'idx': idx, 'twin': twins, 'edits': edits, 'prior': []},
                           cli=(opts['sort'] is None and rng.random() < 0.5))
    finally:
        shutil.rmtree(root, ignore_errors=True)


def self_above(args):
    """Directed family for C03 / C12: a sub-Manifest ABOVE the directory being updated holds an entry for
    itself (which can never be right) and is rewritten - and possibly renamed by the compression
    watermark - only because the chain of MANIFEST entries above the updated directory is refreshed."""
    seed, idx, o = args
    rng = random.Random('selfabove-%d-%d' % (seed, idx))
    root = tlc.scratch_dir('vsa')
    try:
        L = gen.Layout(rng)
        mid = rng.choice(['a', 'da', 'x y'])
        low = mid + '/' + rng.choice(['files', 'b'])
        L.dirs = ['', mid, low]
        comp = rng.choice(['plain', 'plain', 'gz', 'xz'])
        mmf = mid + '/Manifest' + ('' if comp == 'plain' else '.' + comp)
        L.mf['Manifest'] = []
        L.mf[mmf] = []
        hs = rng.choice(HASHSETS)
        lmf = None
        if rng.random() < 0.6:
            lc = rng.choice(gen.COMPS)
            lmf = low + '/Manifest' + ('' if lc == 'plain' else '.' + lc)
            L.mf[lmf] = []
        for d, mp in (('', 'Manifest'), (mid, mmf), (low, lmf or mmf)):
            for n in rng.sample(['f1', 'f2', 'a b', 'zz'], rng.randrange(1, 4)):
                p = (d + '/' if d else '') + n
                L.files[p] = rng.choice([b'abc', b'abd', b'hello world', b''])
                L.add_file_entry(mp, p, L.files[p], 'DATA', hs)
        if lmf:
            L.mf[mmf].append({'tag': 'MANIFEST', 'path': L.rel(lmf, mmf), 'size': 0, 'ck': {'SHA256': ''}, 'ref': lmf})
        L.mf['Manifest'].append({'tag': 'MANIFEST', 'path': mmf, 'size': 0, 'ck': {'SHA256': ''}, 'ref': mmf})
        if rng.random() < 0.4:
            # a second Manifest in the middle directory, referenced from the top-level one as well - and that
            # reference is stale: every entry on the chain above the updated directory has to be refreshed
            xmf = mid + '/Manifest.extra'
            L.files[mid + '/extra.txt'] = b'extra'
            L.mf[xmf] = []
            L.add_file_entry(xmf, mid + '/extra.txt', b'extra', 'DATA', hs)
            stale = {'tag': 'MANIFEST', 'path': xmf, 'size': 1, 'ck': {'SHA1': '00' * 20}}
            if rng.random() < 0.5:
                L.mf['Manifest'].append(stale)
            else:
                L.mf['Manifest'].insert(0, stale)
        # a sibling directory with a Manifest of its own whose entry in the top-level Manifest is stale:
        # outside the updated directory and off the chain above it
        sib = None
        if rng.random() < 0.45:
            sib = 'sib'
            L.dirs.append(sib)
            L.files['sib/s.txt'] = b'sibling'
            smf2 = 'sib/Manifest'
            L.mf[smf2] = []
            L.add_file_entry(smf2, 'sib/s.txt', b'sibling', 'DATA', hs)
            L.mf['Manifest'].append({'tag': 'MANIFEST', 'path': smf2, 'size': 1, 'ck': {'SHA1': '00' * 20}})
        # the entry of the middle Manifest for itself
        b = os.path.basename(mmf)
        L.mf[mmf].append(rng.choice([
            {'tag': 'MANIFEST', 'path': b, 'size': 5, 'ck': {'MD5': '00' * 16}},
            {'tag': 'MANIFEST', 'path': b, 'size': 0, 'ck': {}},
            {'tag': 'DATA', 'path': b, 'size': 7, 'ck': {'SHA256': '11' * 32}},
            {'tag': 'MISC', 'path': b, 'size': 0, 'ck': {}}]))
        if rng.random() < 0.5:
            rng.shuffle(L.mf[mmf])
        L.write(root)
        opts_wm = rng.choice([None, 0, 60, 100000])
        opts_fmt = rng.choice(['gz', 'xz', 'bz2'])
        if comp == 'plain' and opts_wm is not None and rng.random() < 0.4:
            # the name the middle Manifest would take when compressed is taken by a dangling symlink: nothing
            # may be written through it
            os.symlink(rng.choice(['blob', '../blob2', 'nowhere/x']), os.path.join(root, mmf + '.' + opts_fmt))
        edits = []
        cands = sorted(p for p in L.files if p.startswith(low + '/'))
        for p in rng.sample(cands, rng.randrange(1, len(cands) + 1)):
            fp = os.path.join(root, p)
            if rng.random() < 0.4:
                os.unlink(fp)
                edits.append({'m': 'delete', 'p': p})
            else:
                with open(fp, 'ab') as f:
                    f.write(b'+')
                edits.append({'m': 'alter_size', 'p': p})
        if rng.random() < 0.5:
            with open(os.path.join(root, low, 'new file'), 'wb') as f:
                f.write(b'new')
            edits.append({'m': 'stray', 'p': low + '/new file'})
        opts = {'hashes': hs if rng.random() < 0.7 else rng.choice(HASHSETS), 'sub': rng.choice([low, low, mid, '']),
                'sort': rng.choice([None, True, False]), 'force': False,
                'wm': opts_wm, 'fmt': opts_fmt, 'profile': 'default'}
        if opts['wm'] is None:
            opts['fmt'] = None
        if sib and opts['sub'] and rng.random() < 0.7:
            opts['prescan'] = sib
        namer = fm.Namer()
        return run_history(root, L, rng, namer, opts, {'seed': seed, 'idx': idx, 'self_above': mmf, 'edits': edits,
                                                        'prior': [{'prior': 'sub_lists_itself', 'p': mmf}]})
    finally:
        shutil.rmtree(root, ignore_errors=True)


# ---------------------------------------------------------------------------------------------
# direction 1 for Chain.tla: a behaviour (three levels, two rounds) built as a real tree and run
# through the real loader; names, surviving self-entries, the writes of the second round and both
# results are compared with the model's prediction (a difference is drift of the MODEL), and the
# records are judged by TraceUpdate like any other history

CHAIN_DIRS = ['', 'a', 'a/b']


def _at(x, k):
    """TLA+ function printed as JSON: a list when its domain is 1..n, else an object keyed by the argument"""
    return x[k - 1] if isinstance(x, list) else x[str(k)]


def chain_replay(args):
    idx, beh = args
    rng = random.Random('chain-%d' % idx)
    root = tlc.scratch_dir('vch')
    try:
        L = gen.Layout(rng)
        L.dirs = list(CHAIN_DIRS)
        gz0 = beh['init']['gz']
        mfp = {}
        for k in (1, 2, 3):
            d = CHAIN_DIRS[k - 1]
            mfp[k] = (d + '/' if d else '') + ('Manifest.gz' if gz0[k - 1] else 'Manifest')
            L.mf[mfp[k]] = []
        for k in (1, 2, 3):
            d = CHAIN_DIRS[k - 1]
            fpth = (d + '/' if d else '') + 'f%d' % k
            L.files[fpth] = b'content-%d' % k
            ents = [fm.make_entry('DATA', 'f%d' % k, L.files[fpth], ['SHA1'])]
            selfent = None
            if beh['init']['self'][k - 1]['has']:
                selfent = {'tag': 'MANIFEST', 'path': os.path.basename(mfp[k]), 'size': 5, 'ck': {'MD5': '00' * 16}}
            child = None
            if k < 3:
                child = {'tag': 'MANIFEST', 'path': L.rel(mfp[k + 1], mfp[k]), 'size': 0, 'ck': {'SHA1': ''},
                         'ref': mfp[k + 1]}
                if _at(beh['init']['ref'], k + 1)['ver'] < 0:
                    child = {'tag': 'MANIFEST', 'path': L.rel(mfp[k + 1], mfp[k]), 'size': 1,
                             'ck': {'SHA1': '00' * 20}}
            if selfent and beh['selffirst'][k - 1]:
                ents.append(selfent)
            if child:
                ents.append(child)
            if selfent and not beh['selffirst'][k - 1]:
                ents.append(selfent)
            if k >= 2 and _at(beh['big'], k):
                ents += [{'tag': 'DIST', 'path': 'pad-%02d.tar' % j, 'size': 1, 'ck': {'SHA1': '%040x' % j}} for j in range(12)]
            L.mf[mfp[k]] = ents
        L.write(root)
        edits = []
        if beh['edit']:
            with open(os.path.join(root, 'a/b/f3'), 'ab') as f:
                f.write(b' edited')
            edits.append({'m': 'alter_size', 'p': 'a/b/f3'})
        opts = {'hashes': ['SHA1'], 'sub': CHAIN_DIRS[beh['t'] - 1], 'sort': None, 'force': False,
                'wm': 600 if beh['wm'] else None, 'fmt': 'gz' if beh['wm'] else None, 'profile': 'default',
                'extra_round': False}
        namer = fm.Namer()
        recs = run_history(root, L, rng, namer, opts, {'chain': idx, 'edits': edits, 'prior': [], 't': beh['t']})
        for r in recs:
            drift = []
            got1 = r['ev']['end'] if r['ev']['end'] in ('ok', 'oserror', 'internal') else 'other'
            if got1 != beh['result'][0]:
                drift.append('chain-result1:%s/%s' % (beh['result'][0], r['ev']['exc'] or got1))
            elif got1 == 'ok':
                names = set(_unname(namer, m['p']) for m in r['s1']['mfs'])
                for k in (2, 3):
                    d = CHAIN_DIRS[k - 1]
                    want = d + '/' + ('Manifest.gz' if beh['gz'][k - 1] else 'Manifest')
                    other = d + '/' + ('Manifest' if beh['gz'][k - 1] else 'Manifest.gz')
                    if want not in names or other in names:
                        drift.append('chain-name-level%d' % k)
                for k in (1, 2, 3):
                    d = CHAIN_DIRS[k - 1]
                    has = False
                    for m in r['s1']['mfs']:
                        mp = _unname(namer, m['p'])
                        if os.path.dirname(mp) == d and os.path.basename(mp).startswith('Manifest'):
                            for e in m['entries']:
                                if e['tag'] == 'MANIFEST' and _unname(namer, m['p'][:-1] + e['p']) in (
                                        (d + '/' if d else '') + 'Manifest', (d + '/' if d else '') + 'Manifest.gz') \
                                        and len(e['p']) == 1:
                                    has = True
                    if has != beh['self'][k - 1]:
                        drift.append('chain-self-level%d' % k)
                got2 = r['second_end'].split(':')[0] if r['second_end'] else 'none'
                want2 = beh['result'][1]
                if got2 != want2:
                    drift.append('chain-result2:%s/%s' % (want2, r['second_end']))
                elif got2 == 'ok':
                    w2 = sorted(set(CHAIN_DIRS.index(os.path.dirname(_unname(namer, p))) + 1 for p in r['second_changed']))
                    if w2 != sorted(beh['wrote2']):
                        drift.append('chain-wrote2')
            r['drift'] = drift
        return recs
    finally:
        shutil.rmtree(root, ignore_errors=True)


# ---------------------------------------------------------------------------------------------
# direction 1: behaviours exported by TLC from Update.tla, replayed into the real loader

PRED_END = {'ok': ('ok', ''), 'oserror': ('oserror', ''), 'syntax': ('fail', 'ManifestSyntaxError'),
            'incompatible': ('fail', 'ManifestIncompatibleEntry'), 'invalidpath': ('fail', 'ManifestInvalidPath'),
            'internal': ('internal', '')}


def _prep_update_scenario(scn):
    nodes = dict(('/'.join(n['p']), n) for n in scn['nodes'])
    for m in scn['mfs']:
        d = m['p'][:-1]
        if not m['ok']:
            m['raw'] = 'this is not a Manifest\n'
        for e in m['entries']:
            if e['tag'] != 'MANIFEST':
                continue
            full = '/'.join(d + e['p'])
            n = nodes.get(full)
            if n is not None and e['size'] == n['size'] and all(c == n['cid'] for _, c in e['ck']):
                e['size'] = '@' + full
                e['ck'] = [[h, '@' + full] for h, _ in e['ck']]
            else:
                e['size'] = 7
                e['ck'] = [[h, 'jstale'] for h, _ in e['ck']]
    return scn


def _triples(s, unname=None):
    out = set()
    for m in s['mfs']:
        if not m.get('reg', True) or not m['ok']:
            continue
        d = m['p'][:-1]
        for e in m['entries']:
            p = d + e['p'] if e['tag'] not in ('DIST', 'TIMESTAMP') else e['p']
            out.add(('/'.join(m['p']), e['tag'], '/'.join(p), tuple(sorted(h for h, _ in e['ck']))))
    return out


def replay_update(args):
    idx, beh = args
    rng = random.Random(idx)
    root = tlc.scratch_dir('vur')
    try:
        conc = fm.Concretiser()
        scn = _prep_update_scenario(beh['s0'])
        fm.materialise(scn, root, conc=conc, palette={'c0': 3, 'c1': 3, 'c2': 5})
        sub = conc.path(beh['sub'])
        wm = beh['wm']
        opts = {'hashes': list(beh.get('hashes') or ['SHA1']), 'sub': sub, 'sort': None, 'force': False,
                'wm': None if wm < 0 else wm,
                'fmt': None, 'profile': 'default', 'scandir_order': rng.choice(['asc', 'desc'])}
        namer = fm.Namer()

        class _L:
            files = {}
        recs = run_history(root, _L(), rng, namer, opts, {'tlc': idx})
        for r in recs:
            pe, px = PRED_END.get(beh['result'], ('?', '?'))
            drift = []
            if r['ev']['end'] != pe or (px and r['ev']['exc'] != px):
                drift.append('update-result:%s/%s' % (beh['result'], r['ev']['exc'] or r['ev']['end']))
            elif beh['result'] == 'ok':
                want = _triples(beh['s1'])
                got = _triples(r['s1'])
                # names of TLC scenarios are plain, so projected names are identical
                if want != got:
                    drift.append('update-poststate')
            r['drift'] = drift
        return recs
    finally:
        shutil.rmtree(root, ignore_errors=True)
