"""C06 driver: fault enumeration.  An OS-level interposer counts every file-system call the
operation issues (os.open / os.stat / os.fstat / os.scandir + iteration / builtins.open / reads on
the returned objects); the operation is first run clean (recording the calls), then once per
(call index, errno) with that call failing."""
import builtins
import errno as _errno
import io
import os
import random
import shutil

from . import drv_update
from . import fsmodel as fm
from . import gen
from . import tlc

ERRNOS = ['EACCES', 'EPERM', 'EIO', 'ENOMEM', 'ELOOP', 'ENOTDIR', 'EMFILE']


class Interposer:
    """Counts calls; raises OSError(errno) at the call whose index == fail_at."""

    def __init__(self, root, fail_at=None, err=None):
        self.root = root
        self.fail_at = fail_at
        self.err = err
        self.n = 0
        self.calls = []
        self.real = {}
        self.fired = False

    def _tick(self, func, what):
        k = self.n
        self.n += 1
        self.calls.append((func, what))
        if self.fail_at is not None and k == self.fail_at:
            self.fired = True
            raise OSError(getattr(_errno, self.err), os.strerror(getattr(_errno, self.err)), what if isinstance(what, str) else None)

    def _inside(self, p):
        try:
            if isinstance(p, int):
                return True
            p = os.fspath(p)
            if isinstance(p, bytes):
                p = p.decode('utf8', 'surrogateescape')
            return os.path.abspath(p).startswith(self.root)
        except Exception:  # noqa
            return False

    def install(self):
        R = self.real
        R['open'], R['stat'], R['fstat'], R['scandir'], R['bopen'], R['ioopen'] = \
            os.open, os.stat, os.fstat, os.scandir, builtins.open, io.open
        me = self

        def os_open(path, *a, **kw):
            if me._inside(path):
                me._tick('os.open', str(path))
            return R['open'](path, *a, **kw)

        def os_stat(path, *a, **kw):
            if me._inside(path) and not isinstance(path, int):
                me._tick('os.stat', str(path))
            return R['stat'](path, *a, **kw)

        def os_fstat(fd):
            me._tick('os.fstat', 'fd')
            return R['fstat'](fd)

        def os_scandir(path='.'):
            if not me._inside(path):
                return R['scandir'](path)
            me._tick('os.scandir', str(path))
            return ScandirProxy(R['scandir'](path), me, str(path))

        def b_open(file, *a, **kw):
            if isinstance(file, int) or me._inside(file):
                if not isinstance(file, int):
                    me._tick('open', str(file))
                f = R['bopen'](file, *a, **kw)
                mode = a[0] if a else kw.get('mode', 'r')
                if 'w' in mode or 'a' in mode:
                    return f
                return FileProxy(f, me, str(file))
            return R['bopen'](file, *a, **kw)
        os.open, os.stat, os.fstat, os.scandir, builtins.open = os_open, os_stat, os_fstat, os_scandir, b_open
        io.open = b_open

    def remove(self):
        R = self.real
        os.open, os.stat, os.fstat, os.scandir, builtins.open, io.open = \
            R['open'], R['stat'], R['fstat'], R['scandir'], R['bopen'], R['ioopen']


class ScandirProxy:
    def __init__(self, it, ip, path):
        self._it, self._ip, self._path = it, ip, path
        self._first = True

    def __iter__(self):
        return self

    def __next__(self):
        if self._first:
            self._first = False
            self._ip._tick('scandir.next', self._path)
        return next(self._it)

    def __enter__(self):
        return self

    def __exit__(self, *a):
        self._it.close()

    def close(self):
        self._it.close()


class FileProxy:
    """delegating proxy around a file object opened for reading; read-type calls are ticks"""

    def __init__(self, f, ip, name):
        object.__setattr__(self, '_f', f)
        object.__setattr__(self, '_ip', ip)
        object.__setattr__(self, '_name', name)
        object.__setattr__(self, '_ticked', False)

    def _tick(self):
        if not self._ticked:            # one tick per file: "the read of this object"
            object.__setattr__(self, '_ticked', True)
            self._ip._tick('read', self._name)

    def read(self, *a):
        self._tick()
        return self._f.read(*a)

    def read1(self, *a):
        self._tick()
        return self._f.read1(*a)

    def readinto(self, b):
        self._tick()
        return self._f.readinto(b)

    def readline(self, *a):
        self._tick()
        return self._f.readline(*a)

    def __iter__(self):
        return self

    def __next__(self):
        self._tick()
        return next(self._f)

    def __enter__(self):
        self._f.__enter__()
        return self

    def __exit__(self, *a):
        return self._f.__exit__(*a)

    def __getattr__(self, n):
        return getattr(self._f, n)


def run_op(gem, root, op, ip=None, sub=''):
    """-> outcome string"""
    E = gem.gemato.exceptions
    if ip:
        ip.install()
    try:
        try:
            if op == 'findtop':
                # the upward search for the top-level Manifest, started in a sub-directory: a candidate
                # that cannot be inspected must not be taken for "no Manifest here"
                gem.gemato.find_top_level.find_top_level_manifest(os.path.join(root, sub))
                return 'ok'
            ld = gem.loader(os.path.join(root, 'Manifest'), hashes=['SHA1'])
            if op == 'verify':
                r = ld.assert_directory_verifies('')
                return 'ok' if r else 'mismatch'
            if op == 'verifyk':
                # keep-going: the handler answers False to every report; an error must still end the run (or at
                # least make the result False)
                r = ld.assert_directory_verifies('', fail_handler=lambda e: False)
                return 'ok' if r else 'mismatch'
            ld.update_entries_for_directory('')
            return 'ok'
        except E.ManifestMismatch:
            return 'mismatch'
        except gem.GematoException as e:
            return 'fail:' + type(e).__name__
        except OSError as e:
            return 'oserror:' + _errno.errorcode.get(e.errno, str(e.errno))
        except Exception as e:  # noqa
            return 'internal:' + type(e).__name__
    finally:
        if ip:
            ip.remove()


def one_tree(args):
    seed, idx, o = args
    from . import gem
    rng = random.Random('fault-%d-%d' % (seed, idx))
    root = tlc.scratch_dir('vf')
    recs = []
    try:
        L = gen.random_layout(rng, links=False, maxfiles=6)
        # no conflicting duplicates: the clean verification must succeed
        for mp in L.mf:
            seen, keep = set(), []
            for e in L.mf[mp]:
                key = (e['tag'] in ('DIST', 'TIMESTAMP'), e.get('path'))
                if key in seen and e['tag'] not in ('DIST', 'TIMESTAMP'):
                    continue
                seen.add(key)
                keep.append(e)
            L.mf[mp] = keep
        L.write(root)
        # a not yet referenced sub-Manifest (any format): update probes it - an I/O error there
        # must fail the update, not be taken for "this is no Manifest"
        prior = drv_update.perturb_prior(rng, L, root) if rng.random() < 0.6 else []
        variant = rng.choice(['consistent', 'stray', 'stray', 'altered'])
        if variant == 'stray':
            d = rng.choice(L.dirs)
            if os.path.isdir(os.path.join(root, d)):
                with open(os.path.join(root, d, 'unlisted'), 'wb') as f:
                    f.write(b'stray')
        elif variant == 'altered' and L.files:
            gen.mutate(rng, L, root, kind='alter_same')
        errnos = ERRNOS if o.get('all_errnos') else rng.sample(ERRNOS, 3)
        subdirs = [d for d in L.dirs if d and os.path.isdir(os.path.join(root, d))]
        fsub = rng.choice(subdirs) if subdirs else ''
        for op in ('verify', 'verifyk', 'update', 'findtop'):
            sub = fsub if op == 'findtop' else ''
            plain = run_op(gem, root, op, sub=sub)
            ip0 = Interposer(root)
            snap0 = drv_update.raw_snapshot(root)
            clean = run_op(gem, root, op, ip0, sub=sub)
            transparent = (clean == plain) and drv_update.raw_snapshot(root) == snap0
            ncalls = ip0.n
            ks = range(ncalls) if o.get('all_calls') or ncalls <= 40 else sorted(rng.sample(range(ncalls), 40))
            for k in ks:
                for en in errnos:
                    ip = Interposer(root, fail_at=k, err=en)
                    obs = run_op(gem, root, op, ip, sub=sub)
                    changed = drv_update.raw_snapshot(root) != snap0
                    if changed:            # restore for the next run
                        shutil.rmtree(root)
                        os.mkdir(root)
                        return recs + [{'op': op, 'func': ip0.calls[k][0], 'errno': en, 'k': k, 'ncalls': ncalls,
                                        'clean': clean, 'obs': obs, 'changed': True, 'transparent': transparent,
                                        'fired': ip.fired,
                                        'meta': {'seed': seed, 'idx': idx, 'variant': variant, 'what': ip0.calls[k][1]}}]
                    recs.append({'op': op, 'func': ip0.calls[k][0], 'errno': en, 'k': k, 'ncalls': ncalls,
                                 'clean': clean, 'obs': obs if ip.fired else 'notfired', 'changed': False,
                                 'transparent': transparent, 'fired': ip.fired,
                                 'meta': {'seed': seed, 'idx': idx, 'variant': variant,
                                          'what': os.path.relpath(ip0.calls[k][1], root) if ip0.calls[k][1] != 'fd' else 'fd'}})
        return recs
    finally:
        shutil.rmtree(root, ignore_errors=True)
