"""./check <ID> --replay FILE : re-run the recorded step of a violation replay file and judge it
again (flake guard / reproduction)."""
import json

from . import core, tlc


def run(pid, path):
    with open(path) as f:
        body = json.load(f)
    rec = body.get('record')
    info = body.get('replay') or {}
    print('replay of %s clause=%s driver=%s' % (body.get('property'), body.get('clause'), info.get('driver')))
    if rec is None:
        print('no record in replay file')
        return 2
    module = info.get('module', 'TraceVerify')
    cfg = info.get('cfg', module + '.cfg')
    rec = dict(rec)
    rec['id'] = 0
    verdicts, lenient, drift, res = tlc.run_judge(module, cfg, [rec], workers=1)
    cl = verdicts.get(0, [])
    print('recorded step judged again: failing clauses =', cl)
    print(json.dumps(rec.get('ev', rec), indent=1)[:3000])
    if any(c.split('.')[0] == pid for c in cl):
        print('VIOLATION property=%s replay=%s' % (pid, path))
        return 1
    return 0
