"""Access to the implementation under test (imported from GEMATO_SRC, default /repo) and the
API-boundary wrappers that turn a call into an observation record."""
import errno
import io
import logging
import os
import sys

SRC = os.environ.get('GEMATO_SRC', '/repo')
if SRC not in sys.path:
    sys.path.insert(0, SRC)
os.environ.setdefault('GEMATO_VERIF', '1')

import gemato  # noqa: E402
import gemato.cli  # noqa: E402
import gemato.exceptions  # noqa: E402
import gemato.find_top_level  # noqa: E402
import gemato.hash  # noqa: E402
import gemato.manifest  # noqa: E402
import gemato.openpgp  # noqa: E402
import gemato.profile  # noqa: E402
import gemato.recursiveloader  # noqa: E402
import gemato.verify  # noqa: E402

assert os.path.realpath(gemato.__file__).startswith(os.path.realpath(SRC)), \
    'gemato imported from %s, expected %s' % (gemato.__file__, SRC)

GematoException = gemato.exceptions.GematoException


def classify(exc):
    """end-class of an operation that raised `exc`: fail(lib) / oserror / internal."""
    if isinstance(exc, GematoException):
        return {'end': 'fail', 'exc': type(exc).__name__}
    if isinstance(exc, OSError) and exc.errno is not None:
        return {'end': 'oserror', 'exc': errno.errorcode.get(exc.errno, str(exc.errno))}
    return {'end': 'internal', 'exc': type(exc).__name__}


def call(fn, *a, **kw):
    """-> (observation dict with end/exc, return value or None)"""
    try:
        r = fn(*a, **kw)
    except RecursionError as e:
        return {'end': 'internal', 'exc': 'RecursionError'}, None
    except Exception as e:     # noqa
        return classify(e), None
    return {'end': 'ok', 'exc': ''}, r


class LogCapture(logging.Handler):
    def __init__(self):
        super().__init__()
        self.records = []

    def emit(self, record):
        self.records.append(record)


def run_cli(argv, cwd=None):
    """Run gemato.cli.main in-process. -> dict(end, exc, status, errors:[msg], out)"""
    root = logging.getLogger()
    h = LogCapture()
    old_level = root.level
    old_handlers = root.handlers[:]
    root.handlers = [h]
    root.setLevel(logging.INFO)
    old_cwd = os.getcwd()
    old_out, old_err = sys.stdout, sys.stderr
    sys.stdout, sys.stderr = io.StringIO(), io.StringIO()
    old_env = dict(os.environ)
    status = None
    try:
        if cwd:
            os.chdir(cwd)
        try:
            status = gemato.cli.main(['gemato'] + list(argv))
            obs = {'end': 'ok', 'exc': ''}
        except SystemExit as e:
            status = e.code if isinstance(e.code, int) else 2
            obs = {'end': 'ok', 'exc': 'SystemExit'}
        except Exception as e:  # noqa
            obs = classify(e)
            status = -1
            if obs['end'] == 'internal':
                import traceback
                obs['tb'] = ''.join(traceback.format_exc().splitlines(True)[-8:])
    finally:
        out = sys.stdout.getvalue()
        sys.stdout, sys.stderr = old_out, old_err
        os.chdir(old_cwd)
        root.handlers = old_handlers
        root.setLevel(old_level)
        os.environ.clear()
        os.environ.update(old_env)
    obs['status'] = status
    obs['errors'] = [r.getMessage() if not isinstance(r.msg, Exception) else str(r.msg)
                     for r in h.records if r.levelno >= logging.ERROR]
    obs['error_objs'] = [r.msg for r in h.records if r.levelno >= logging.ERROR]
    obs['out'] = out
    return obs


def loader(top, **kw):
    return gemato.recursiveloader.ManifestRecursiveLoader(top, **kw)
