"""C15 driver: chains materialised as real directories with Manifests; device boundaries by
rewriting st_dev in the os.stat/os.fstat results find_top_level sees (and by a real tmpfs
boundary where /dev/shm is available)."""
import itertools
import os
import random
import shutil
import types

from . import fsmodel as fm
from . import tlc

MF = ['none', 'plain', 'gz']
IGN = ['none', 'path', 'anc', 'sib', 'look']


def all_chains(n):
    lv = list(itertools.product(MF, IGN))
    for ch in itertools.product(lv, repeat=n):
        for cut in range(0, n + 1):
            for start in range(1, n + 1):
                for ac in (False, True):
                    for ax in (False, True):
                        yield {'chain': [{'mf': m, 'ign': g} for m, g in ch], 'cut': cut, 'start': start,
                               'allowC': ac, 'allowX': ax}


def random_chain(rng, n):
    return {'chain': [{'mf': rng.choice(MF), 'ign': rng.choice(IGN)} for _ in range(n)],
            'cut': rng.randrange(0, n + 1), 'start': rng.randrange(1, n + 1),
            'allowC': rng.random() < 0.5, 'allowX': rng.random() < 0.5}


NAMESETS = [['l1', 'l2', 'l3', 'l4', 'l5', 'l6'], ['a b', 'zażółć', 'x\\y', 'd', 'da', 'd e'],
            ['pkg', 'pkg-1', 'pkg.d', 'p', 'pk', 'q']]


def run_chains(args):
    scns, seed = args
    from . import gem
    F = gem.gemato.find_top_level
    rng = random.Random(seed)
    base = tlc.scratch_dir('vft')
    real_os = F.os
    recs = []
    try:
        # the real ancestors of the scratch directory must hold no Manifest
        p = base
        while True:
            p = os.path.dirname(p)
            assert not any(os.path.exists(os.path.join(p, n)) for n in ('Manifest', 'Manifest.gz')), p
            if p == '/':
                break
        for k, sc in enumerate(scns):
            names = rng.choice(NAMESETS)
            n = len(sc['chain'])
            root = os.path.join(base, 's%d' % k)
            dirs = []
            cur = root
            for l in range(n):
                cur = os.path.join(cur, names[l])
                dirs.append(cur)
            os.makedirs(dirs[-1])
            start = sc['start']
            for l in range(1, n + 1):
                lv = sc['chain'][l - 1]
                if lv['mf'] == 'none':
                    continue
                ents = [{'tag': 'DATA', 'path': 'unrelated', 'size': 0, 'ck': {}}]
                rel = names[l:start] if l < start else []
                nxt = names[l] if l < n else 'zz'
                ign = lv['ign']
                # (a directory may be named with a trailing slash: it is the same directory)
                slash = '/' if rng.random() < 0.25 else ''
                if ign == 'path':
                    ents.append({'tag': 'IGNORE', 'path': ('/'.join(rel) if rel else nxt + '/deeper') + slash, 'size': 0, 'ck': {}})
                elif ign == 'anc':
                    ents.append({'tag': 'IGNORE', 'path': nxt + slash, 'size': 0, 'ck': {}})
                elif ign == 'sib':
                    ents.append({'tag': 'IGNORE', 'path': 'sibling-of-' + nxt, 'size': 0, 'ck': {}})
                elif ign == 'look':
                    # string prefix of the next component, or the next component plus a suffix
                    ents.append({'tag': 'IGNORE', 'path': rng.choice([nxt[:-1] or 'x', nxt + 'x', nxt + '.d']),
                                 'size': 0, 'ck': {}})
                rng.shuffle(ents)
                comp = 'plain' if lv['mf'] == 'plain' else rng.choice(['gz', 'bz2', 'xz', 'lzma'])
                with open(os.path.join(dirs[l - 1], 'Manifest' + ('' if comp == 'plain' else '.' + comp)), 'wb') as f:
                    f.write(fm.manifest_bytes(ents, comp))
            # device boundary: levels 1..cut report another st_dev
            other = set(os.path.realpath(d) for d in dirs[:sc['cut']])

            def fake_stat_result(st, path_real):
                if path_real in other or os.path.dirname(path_real) in other and not os.path.isdir(path_real):
                    lst = list(st)
                    lst[2] = st.st_dev + 7777
                    return os.stat_result(lst)
                return st
            shim = types.ModuleType('os')
            shim.__dict__.update(real_os.__dict__)
            fdpath = {}
            shim.stat = lambda p, *a, **kw: fake_stat_result(real_os.stat(p, *a, **kw), os.path.realpath(p))

            def fstat(fd):
                st = real_os.fstat(fd)
                try:
                    pth = os.path.realpath('/proc/self/fd/%d' % fd)
                except OSError:
                    return st
                return fake_stat_result(st, pth)
            shim.fstat = fstat
            F.os = shim
            # the starting directory given absolutely, or RELATIVE to a working directory somewhere on the chain
            # (`.`, `sub/dir`, `..`): the answer is the same
            spath = dirs[start - 1]
            old_cwd = real_os.getcwd()
            if rng.random() < 0.35:
                cw = dirs[rng.randrange(0, n)]
                real_os.chdir(cw)
                spath = os.path.relpath(dirs[start - 1], cw)
            try:
                try:
                    res = F.find_top_level_manifest(spath, allow_xdev=sc['allowX'],
                                                    allow_compressed=sc['allowC'])
                    if res is None:
                        obs = 0
                    else:
                        rp = os.path.realpath(os.path.dirname(res))
                        obs = -2
                        for l in range(1, n + 1):
                            if os.path.realpath(dirs[l - 1]) == rp:
                                obs = l
                except Exception as e:  # noqa
                    obs = -2
            finally:
                F.os = real_os
                real_os.chdir(old_cwd)
            recs.append(dict(sc, obs=obs, names=names[:n]))
            shutil.rmtree(root, ignore_errors=True)
    finally:
        F.os = real_os
        shutil.rmtree(base, ignore_errors=True)
    return recs
