"""C14 driver: every combination of sign option x originally signed x key id x usable key x
layout, on the real loader with real gpg; the written files are classified with C04's line
classifier, re-verified in an isolated verifier home and compared with the in-memory entries."""
import io
import os
import random
import shutil

from . import drv_framing
from . import fsmodel as fm
from . import tlc


def build_homes():
    from . import gpgenv
    H = gpgenv.Home()
    a = H.genkey('Key A <a@example.com>')        # the default key (first secret key)
    b = H.genkey('Key B <b@example.com>')
    pubs = H.export(a) + H.export(b)
    H.set_ownertrust(a, 6)
    H.set_ownertrust(b, 6)
    Hpub = gpgenv.Home()                           # public keys only: nothing can be signed here
    Hpub.import_key(pubs)
    Hpub.set_ownertrust(a, 6)
    Hpub.set_ownertrust(b, 6)
    # a home whose default key is B while A exists too is not needed: default = first secret key (A)
    # secret keys that exist but cannot be used: passphrase-protected, no pinentry in batch mode.  gpg then
    # selects the key, writes the cleartext part and fails at the signature (non-empty output, exit 2)
    Hlock = gpgenv.Home()
    la = Hlock.genkey('Locked A <la@example.com>', passphrase='secret')
    lb = Hlock.genkey('Locked B <lb@example.com>', passphrase='secret')
    Hlock.import_key(pubs)
    for k in (a, b, la, lb):
        Hlock.set_ownertrust(k, 6)
    with open(os.path.join(Hlock.path, 'gpg-agent.conf'), 'w') as f:
        f.write('pinentry-program /bin/false\n')
    H.kill()
    Hpub.kill()
    Hlock.kill()
    return {'H': H, 'Hpub': Hpub, 'Hlock': Hlock, 'a': a, 'b': b, 'la': la, 'lb': lb, 'pubs': pubs}


def abs_entries_from_objs(ents):
    out = []
    for e in ents:
        if e.tag == 'TIMESTAMP':
            out.append(('TIMESTAMP', e.ts.strftime('%Y-%m-%dT%H:%M:%SZ')))
        elif e.tag == 'IGNORE':
            out.append(('IGNORE', e.path))
        else:
            out.append((e.tag, e.path, e.size, tuple(sorted(e.checksums.items()))))
    return sorted(out)


def abs_entries_from_text(text):
    pm = fm.parse_manifest_text(text)
    out = []
    for e in pm['entries']:
        if e['tag'] == 'TIMESTAMP':
            out.append(('TIMESTAMP', e['ts']))
        elif e['tag'] == 'IGNORE':
            out.append(('IGNORE', e['path']))
        else:
            out.append((e['tag'], e['path'], e['size'], tuple(sorted(e['ck'].items()))))
    return sorted(out), pm['ok']


def long_path(n):
    """n > 0: that many ASCII letters; n < 0: -n CJK characters (three bytes each: few characters, many bytes)"""
    return 'ignored-' + ('x' * n if n > 0 else 'xx' + '\u6f22' * (-n))


def one_case(args):
    case, homes, seed = args
    from . import gem, gpgenv
    rng = random.Random('sign-%d-%s' % (seed, sorted(case.items())))
    root = tlc.scratch_dir('vs')
    old_home = os.environ.get('GNUPGHOME')
    locked = case['key_usable'] == 'locked'
    signer = gpgenv.Home(homes['Hlock' if locked else 'H' if case['key_usable'] else 'Hpub']).clone()
    full = gpgenv.Home(homes['H']).clone()          # for preparing the initially signed top-level file
    verifier = gpgenv.Home(homes['Hpub']).clone()
    try:
        names = ['a.txt', 'b c', 'zażółć', 'x\\y'] if case['hostile'] else ['a.txt', 'b.txt']
        os.makedirs(os.path.join(root, 'sub', 'deep'))
        files = {}
        for n in names:
            files[n] = ('content of %s' % n).encode()
            files['sub/' + n] = ('sub content of %s' % n).encode()
        files['sub/deep/z'] = b'z'
        for p, data in files.items():
            with open(os.path.join(root, p), 'wb') as f:
                f.write(data)
        subcomp = case['subcomp']
        subname = 'sub/Manifest' + ('' if subcomp == 'plain' else '.' + subcomp)
        sub_ents = [fm.make_entry('DATA', p[4:], d, ['SHA256']) for p, d in sorted(files.items()) if p.startswith('sub/')]
        subdata = fm.manifest_bytes(sub_ents, subcomp)
        if case.get('sub_signed'):
            # a sub-Manifest that carries a valid signature of its own on disk: it is verified on
            # load, and must nevertheless be written back unsigned
            subtext = full.clearsign(fm.manifest_bytes(sub_ents).decode('utf8'), keyid=homes['a'])
            subdata = fm.compress(subtext.encode('utf8'), subcomp)
        with open(os.path.join(root, subname), 'wb') as f:
            f.write(subdata)
        top_ents = [fm.make_entry('DATA', p, d, ['SHA256']) for p, d in sorted(files.items()) if '/' not in p]
        top_ents.append(fm.make_entry('MANIFEST', subname, subdata, ['SHA256']))
        if case.get('longline'):
            top_ents.append({'tag': 'IGNORE', 'path': long_path(case['longline']), 'size': 0, 'ck': {}})
        toptext = fm.manifest_bytes(top_ents).decode('utf8')
        if case['was_signed']:
            toptext = full.clearsign(toptext, keyid=homes['a'])
        topname = 'Manifest.gz' if case['rename_top'] else 'Manifest'
        with open(os.path.join(root, topname), 'wb') as f:
            f.write(fm.compress(toptext.encode('utf8'), fm.compression_of(topname)))
        # an edit, so that top-level and sub-Manifest are both rewritten
        with open(os.path.join(root, names[0]), 'ab') as f:
            f.write(b' edited')
        with open(os.path.join(root, 'sub', names[-1]), 'ab') as f:
            f.write(b' edited')
        os.environ['GNUPGHOME'] = signer.path
        env = gem.gemato.openpgp.SystemGPGEnvironment()
        kw = dict(verify_openpgp=True, openpgp_env=env, hashes=['SHA256'], sort=case['sort'])
        if case['signopt'] != 'unset':
            kw['sign_openpgp'] = (case['signopt'] == 'on')
        want_key = homes['a']
        if case['keyid'] == 'explicit_b':
            kw['openpgp_keyid'] = homes['lb' if locked else 'b']
            want_key = homes['b']
        elif case['keyid'] == 'missing':
            kw['openpgp_keyid'] = 'nobody@example.com'
            want_key = None
        if case['rename_top']:
            kw['compress_watermark'] = 10**6          # everything below it: top Manifest.gz is uncompressed
        mem = None
        if case.get('via') == 'cli':
            argv = ['update', '--hashes', 'SHA256']
            if case['signopt'] != 'unset':
                argv.append('--sign' if case['signopt'] == 'on' else '--no-sign')
            if 'openpgp_keyid' in kw:
                argv += ['-k', kw['openpgp_keyid']]
            if case['rename_top']:
                argv += ['--compress-watermark', str(10**6)]
            argv.append(root)
            o = gem.run_cli(argv)
            obs = {'end': o['end'], 'exc': o['exc']}
            if o['end'] == 'ok' and o['status'] != 0:
                msg = (o.get('errors') or [''])[0]
                obs = {'end': 'fail', 'exc': 'OpenPGPSigningFailure' if msg.startswith('OpenPGP signing failed')
                       else 'other:' + msg[:80]}
        else:
            obs, ld = gem.call(gem.loader, os.path.join(root, topname), **kw)
            if obs['end'] == 'ok':
                obs, _ = gem.call(ld.update_entries_for_directory, '')
            if obs['end'] == 'ok':
                obs, _ = gem.call(ld.save_manifests)
                try:
                    mem = abs_entries_from_objs(ld.loaded_manifests[ld.top_level_manifest_filename].entries)
                except Exception:  # noqa
                    mem = None
        signer.kill()
        # inspect what is on disk
        topfile = None
        for cand in ('Manifest', 'Manifest.gz'):
            if os.path.exists(os.path.join(root, cand)) and not (case['rename_top'] and obs['end'] == 'ok' and cand == 'Manifest.gz'
                                                                 and os.path.exists(os.path.join(root, 'Manifest'))):
                topfile = cand
                break
        raw = open(os.path.join(root, topfile), 'rb').read()
        text = fm.decompress(raw, fm.compression_of(topfile)).decode('utf8')
        lines = text.split('\n')
        if lines and lines[-1] == '':
            lines.pop()
        top = {'classes': [drv_framing.classify_line(l) for l in lines], 'verified': False, 'signer_ok': False,
               'entries_match': False, 'file': topfile}
        good, clear = verifier.authenticated_cleartext(text)
        verifier.kill()
        if good:
            top['verified'] = True
            rc, st = verifier.verify_status(text)
            verifier.kill()
            fprs = [w.split(' ')[1] for w in st if w.startswith('VALIDSIG ')]
            prim = [w.split(' ')[-1] for w in st if w.startswith('VALIDSIG ')]
            top['signer_ok'] = want_key is not None and (want_key in fprs or want_key in prim)
            ae, ok = abs_entries_from_text(clear)
            if case.get('via') == 'cli':
                # no loader object to look into: the entries the file yields when it is read back
                sg, body = fm.strip_signature(text)
                mem, okm = abs_entries_from_text(body if sg is not None else '')
                if not okm:
                    mem = None
            top['entries_match'] = bool(ok and mem is not None and ae == mem)
        subs = []
        for dp, dn, fn in os.walk(root):
            for f in fn:
                if f.startswith('Manifest') and dp != root:
                    p = os.path.join(dp, f)
                    try:
                        t = fm.decompress(open(p, 'rb').read(), fm.compression_of(p)).decode('utf8')
                    except Exception:  # noqa
                        t = '<undecodable>'
                    ls = t.split('\n')
                    if ls and ls[-1] == '':
                        ls.pop()
                    subs.append({'classes': [drv_framing.classify_line(l) for l in ls]})
        usable = case['key_usable'] is True and case['keyid'] != 'missing'
        return [{'signopt': case['signopt'], 'was_signed': case['was_signed'], 'key_usable': usable,
                 'signable': not (case.get('longline')
                                  and len(('IGNORE ' + long_path(case['longline'])).encode('utf8')) >= 16384),
                 'explicit_key': case['keyid'] != 'default', 'end': obs['end'], 'exc': obs['exc'],
                 'top': top, 'subs': subs, 'meta': dict(case)}]
    finally:
        if old_home is None:
            os.environ.pop('GNUPGHOME', None)
        else:
            os.environ['GNUPGHOME'] = old_home
        for h in (signer, full, verifier):
            h.close()
        shutil.rmtree(root, ignore_errors=True)


def all_cases(rng, thorough):
    cases = []
    for signopt in ('unset', 'on', 'off'):
        for was_signed in (False, True):
            for keyid in ('default', 'explicit_b', 'missing'):
                for key_usable in (True, False, 'locked'):
                    for rename_top in (False, True):
                        for subcomp in (('plain', 'gz', 'xz') if thorough else (rng.choice(['plain', 'gz', 'bz2', 'xz']),)):
                            for hostile in ((False, True) if thorough else (rng.random() < 0.5,)):
                                for sub_signed in ((False, True) if thorough or keyid == 'default' else (False,)):
                                    cases.append({'signopt': signopt, 'was_signed': was_signed, 'keyid': keyid,
                                                  'key_usable': key_usable, 'rename_top': rename_top,
                                                  'subcomp': subcomp, 'hostile': hostile, 'sub_signed': sub_signed,
                                                  'sort': rng.choice([None, True]), 'via': 'api', 'longline': 0})
    # through the command line (-k / --sign / --no-sign as the user gives them)
    more = []
    for c in cases:
        if c['key_usable'] != 'locked' and not c['sub_signed'] and not c['rename_top'] and (thorough or rng.random() < 0.5):
            more.append(dict(c, via='cli'))
    # a line too long for gpg to sign intact (an IGNORE entry the update has to keep): only where the prior
    # text is plain (such a text cannot have been loaded as signed)
    for c in cases:
        if not c['was_signed'] and c['key_usable'] is True and c['keyid'] != 'missing' and not c['sub_signed'] \
                and (thorough or c['signopt'] == 'on' or rng.random() < 0.3):
            more.append(dict(c, longline=rng.choice([16500, 19990, 20100, 30000, -5000, -5460, -7000]),
                             via='api' if c['rename_top'] else rng.choice(['api', 'cli'])))
    return cases + more
