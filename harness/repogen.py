"""Seeded generator of ebuild-repository-shaped trees (C19, C20) with the ROLE of every directory."""
import os

# (names that are string prefixes of a sibling's name are deliberate: dev / dev-libs, foo / foo-bin, x11 / x11-libs)
CATS = ['dev-libs', 'app-misc', 'sys-apps', 'virtual', 'dev']
PKGS = ['foo', 'bar-baz', 'libqux', 'x11', 'foo-bin', 'x11-libs']
METASTD = ['dtd', 'glsa', 'md5-cache', 'news', 'xml-schema']


def build(rng, root, portable=True, ignored_dirs=True, big=False):
    """-> roles: {relpath: role}, files: {relpath: bytes}"""
    roles = {'': 'root'}
    files = {}

    def mk(d, role):
        os.makedirs(os.path.join(root, d), exist_ok=True)
        roles[d] = role

    def put(p, data):
        os.makedirs(os.path.dirname(os.path.join(root, p)), exist_ok=True)
        with open(os.path.join(root, p), 'wb') as f:
            f.write(data)
        files[p] = data

    def blob(n=None):
        n = n if n is not None else rng.choice([0, 1, 10, 100, 1000])
        return bytes(rng.getrandbits(8) for _ in range(n))

    for c in rng.sample(CATS, rng.randrange(0, 4)):
        pk = rng.sample(PKGS, rng.randrange(1, 4))
        mk(c, 'category')
        if rng.random() < 0.5:
            put(c + '/metadata.xml', b'<catmetadata/>' + blob(5))
        for p in pk:
            d = c + '/' + p
            mk(d, 'package')
            # (sometimes a package whose last ebuild is gone: metadata.xml and files/ remain)
            nver = 0 if rng.random() < 0.12 else rng.randrange(1, 3)
            for v in rng.sample(['1.0', '2.1-r1', '9999'], nver):
                put('%s/%s-%s.ebuild' % (d, p, v), b'EAPI=8\n' + blob(30))
            if nver == 0 or rng.random() < 0.7:
                put(d + '/metadata.xml', b'<pkgmetadata/>' + blob(8))
            if rng.random() < 0.5:
                mk(d + '/files', 'pkgfiles')
                for k in range(rng.randrange(1, 3)):
                    put('%s/files/%s-%d.patch' % (d, p, k), b'--- a\n+++ b\n' + blob(200000 if big and rng.random() < 0.3 else 40))
                if rng.random() < 0.4:
                    sd = rng.choice(['sub', 'files', 'tmpfiles'])
                    mk(d + '/files/' + sd, 'pkgfiles-sub')
                    put(d + '/files/' + sd + '/extra.conf', blob(20))
    if rng.random() < 0.7:
        mk('eclass', 'eclass')
        for k in range(rng.randrange(0, 3)):
            put('eclass/e%d.eclass' % k, b'# eclass\n' + blob(50))
    if rng.random() < 0.6:
        mk('licenses', 'licenses')
        for n in rng.sample(['GPL-2', 'MIT', 'BSD'], rng.randrange(1, 3)):
            put('licenses/' + n, blob(100000 if big and rng.random() < 0.3 else 300))
    if rng.random() < 0.7:
        mk('profiles', 'profiles')
        put('profiles/repo_name', b'test-repo\n')
        if rng.random() < 0.6:
            mk('profiles/arch', 'profiles-sub')
            mk('profiles/arch/x86', 'profiles-sub')
            put('profiles/arch/x86/make.defaults', b'ARCH="x86"\n')
            put('profiles/arch/eapi', b'8\n')
    if rng.random() < 0.7:
        mk('metadata', 'metadata')
        put('metadata/layout.conf', b'masters =\n')
        if rng.random() < 0.5:
            put('metadata/timestamp.chk', b'Sat, 01 Jan 2022 00:00:00 +0000\n')
            put('metadata/timestamp', b'x\n')
        for s in rng.sample(METASTD, rng.randrange(0, 4)):
            d = 'metadata/' + s
            mk(d, 'metadata-std')
            if s == 'md5-cache':
                for c in rng.sample(CATS, rng.randrange(0, 3)):
                    mk(d + '/' + c, 'md5-cache-cat')
                    put('%s/%s/foo-1.0' % (d, c), b'DEFINED_PHASES=-\n' + blob(10))
            else:
                for k in range(rng.randrange(0, 3)):
                    put('%s/item%d.xml' % (d, k), b'<x/>' + blob(10))
                if rng.random() < 0.4:
                    put(d + '/timestamp.chk', b'chk\n')
                    put(d + '/timestamp.commit', b'commit\n')
        if rng.random() < 0.3:
            mk('metadata/misc', 'metadata-other')
            put('metadata/misc/readme', b'readme\n')
    if ignored_dirs:
        for n in rng.sample(['distfiles', 'local', 'packages'], rng.randrange(0, 3)):
            mk(n, 'ignored-top')
            put(n + '/junk.tar', blob(50))
    for n in rng.sample(['header.txt', 'skel.ebuild', 'README'], rng.randrange(0, 3)):
        put(n, b'top level ' + blob(10))
    if not portable and rng.random() < 0.5:
        mk('eclass', 'eclass')
        put('eclass/with space.eclass', b'x')
    if rng.random() < 0.3:
        mk('scripts', 'top-plain')
        put('scripts/run.sh', b'#!/bin/sh\n')
    # hidden directories holding files with ordinary names: nobody's business (no role, no entry)
    for d in sorted(roles):
        if rng.random() < 0.08:
            hd = os.path.join(root, d, rng.choice(['.git', '.unused', '.backup']))
            os.makedirs(os.path.join(hd, 'deep'), exist_ok=True)
            for n in ('config', 'deep/old.patch'):
                with open(os.path.join(hd, n), 'wb') as f:
                    f.write(b'hidden ' + blob(8))
    return roles, files
