"""C20 driver: utils/gen_fast_manifest.py on single directories and utils/gen_fast_metamanifest.py
on whole repositories (sub-processes, unsigned), then the reference implementation on the result."""
import os
import random
import shutil
import subprocess
import sys

from . import fsmodel as fm
from . import tlc

STD = ['metadata/dtd', 'metadata/glsa', 'metadata/news', 'metadata/xml-schema', 'metadata/md5-cache', 'eclass',
       'licenses', 'profiles']


def build_repo(rng, root, big=False):
    """a ::gentoo-shaped repository with portable names (what the scripts expect to find)"""
    files = {}

    def put(p, data):
        os.makedirs(os.path.dirname(os.path.join(root, p)), exist_ok=True)
        with open(os.path.join(root, p), 'wb') as f:
            f.write(data)
        files[p] = data

    def blob(n):
        return bytes(rng.getrandbits(8) for _ in range(n))
    for d in STD:
        os.makedirs(os.path.join(root, d), exist_ok=True)
    cats = rng.sample(['dev-libs', 'app-misc', 'sys-apps', 'virtual'], rng.randrange(0, 4))
    put('profiles/categories', ('\n'.join(cats) + '\n').encode() if cats else b'')
    put('profiles/repo_name', b'test\n')
    if rng.random() < 0.5:
        put('profiles/arch/x86/make.defaults', b'ARCH=x86\n')
    put('metadata/layout.conf', b'masters =\n')
    if rng.random() < 0.5:
        put('metadata/timestamp.chk', b'ts\n')
    # (every rsync bookkeeping file the Manifests of metadata/ IGNORE)
    for n in ('timestamp', 'timestamp.commit', 'timestamp.x'):
        if rng.random() < 0.3:
            put('metadata/' + n, n.encode() + b'\n')
    for c in cats:
        os.makedirs(os.path.join(root, c), exist_ok=True)
        if rng.random() < 0.5:
            put(c + '/metadata.xml', b'<catmetadata/>')
        for p in rng.sample(['foo', 'bar-baz', 'libqux'], rng.randrange(0, 3)):
            d = '%s/%s' % (c, p)
            # (sometimes a package whose last ebuild is gone: metadata.xml, files/ and the old Manifest remain)
            nver = 0 if rng.random() < 0.15 else rng.randrange(1, 3)
            for v in rng.sample(['1.0', '2.1-r1'], nver):
                put('%s/%s-%s.ebuild' % (d, p, v), b'EAPI=8\n' + blob(20))
            if nver == 0 or rng.random() < 0.7:
                put(d + '/metadata.xml', b'<pkgmetadata/>')
            if rng.random() < 0.5:
                put('%s/files/%s.patch' % (d, p), blob(200000 if big and rng.random() < 0.5 else 30))
                if rng.random() < 0.4:
                    put('%s/files/%s/nested.conf' % (d, rng.choice(['sub', 'files', 'tmpfiles', 'init.d'])), blob(10))
            if rng.random() < 0.4:
                # pre-existing package Manifest carrying DIST entries (one of them may bear the name of a file
                # in files/: a distfile and a patch are different things)
                dist = ['%s-1.0.tar.gz' % p]
                if rng.random() < 0.4:
                    dist.append('%s.patch' % p)
                put(d + '/Manifest', ''.join('DIST %s 1234 BLAKE2B %s SHA512 %s\n' % (n, 'ab' * 64, 'cd' * 64)
                                             for n in dist).encode())
            if rng.random() < 0.6:
                put('metadata/md5-cache/%s/%s-1.0' % (c, p), b'DEFINED_PHASES=-\n')
    for k in range(rng.randrange(0, 3)):
        put('eclass/e%d.eclass' % k, b'# eclass' + blob(10))
    for n in rng.sample(['GPL-2', 'MIT'], rng.randrange(0, 3)):
        put('licenses/' + n, blob(100000 if big and rng.random() < 0.5 else 200))
    for s in ('dtd', 'glsa', 'news', 'xml-schema'):
        for k in range(rng.randrange(0, 3)):
            put('metadata/%s/item%d.xml' % (s, k), b'<x/>' + blob(5))
        if rng.random() < 0.3:
            put('metadata/%s/timestamp.chk' % s, b'chk\n')
        if rng.random() < 0.3:
            put('metadata/%s/timestamp.commit' % s, b'commit\n')
    for n in rng.sample(['header.txt', 'skel.ebuild', 'skel.metadata.xml'], rng.randrange(0, 3)):
        put(n, b'top ' + blob(5))
    # hidden directories holding files with ordinary names (editor / VCS leftovers): nobody lists them
    dirs = sorted(set(os.path.dirname(p) for p in files))
    for d in dirs:
        if rng.random() < 0.12:
            hd = os.path.join(root, d, rng.choice(['.git', '.unused', '.backup', '.idea']))
            os.makedirs(os.path.join(hd, 'deep'), exist_ok=True)
            for n in ('config', 'deep/old.patch', 'foo.eclass'):
                with open(os.path.join(hd, n), 'wb') as f:
                    f.write(b'hidden ' + blob(4))
    return files, cats


def run_script(script, args, cwd=None):
    from . import gem
    env = dict(os.environ)
    env['PYTHONPATH'] = gem.SRC
    utils = os.path.join(gem.SRC, 'utils')
    p = subprocess.run([sys.executable, os.path.join(utils, script)] + args, env=env, cwd=cwd,
                       stdout=subprocess.PIPE, stderr=subprocess.PIPE, timeout=300)
    return p.returncode, p.stderr.decode('utf8', 'replace')[-500:]


def top_of(root):
    for n in ('Manifest', 'Manifest.gz'):
        if os.path.exists(os.path.join(root, n)):
            return n
    return 'Manifest'


def verify_tree(gem, root):
    o, ld = gem.call(gem.loader, os.path.join(root, top_of(root)))
    if o['end'] == 'ok':
        o, r = gem.call(ld.assert_directory_verifies, '')
    return o['end'] + (':' + o['exc'] if o['exc'] else '')


def update_tree(gem, root, whole=True):
    top = top_of(root)
    # the ebuild profile places Manifests relative to the REPOSITORY root: for a single directory
    # generated on its own the update runs with the plain profile and the scripts' hash set
    if whole:
        kw = {'profile': gem.gemato.profile.get_profile_by_name('ebuild')}
    else:
        kw = {'hashes': ['BLAKE2B', 'SHA512']}
    o, ld = gem.call(gem.loader, os.path.join(root, top), **kw)
    if o['end'] == 'ok':
        o, _ = gem.call(ld.update_entries_for_directory, '')
    if o['end'] == 'ok':
        o, _ = gem.call(ld.save_manifests)
    return o['end'] + (':' + o['exc'] if o['exc'] else '')


def edit(rng, root, files):
    n = rng.randrange(0, 6)
    fl = sorted(p for p in files if not os.path.basename(p).startswith('Manifest'))
    for _ in range(n):
        kind = rng.choice(['change', 'add', 'delete'])
        if kind == 'change' and fl:
            p = rng.choice(fl)
            if os.path.exists(os.path.join(root, p)):
                with open(os.path.join(root, p), 'ab') as f:
                    f.write(b'#e')
        elif kind == 'add' and fl:
            d = os.path.dirname(rng.choice(fl))
            with open(os.path.join(root, d, 'added-%d' % rng.randrange(100)), 'wb') as f:
                f.write(b'added')
        elif kind == 'delete' and fl:
            p = rng.choice(fl)
            if os.path.exists(os.path.join(root, p)) and p not in ('profiles/categories',):
                os.unlink(os.path.join(root, p))
    return n


def one_case(args):
    seed, idx, o = args
    from . import gem
    rng = random.Random('gen-%d-%d' % (seed, idx))
    base = tlc.scratch_dir('vg')
    try:
        repo = os.path.join(base, 'repo')
        os.mkdir(repo)
        files, cats = build_repo(rng, repo, big=o.get('big', False))
        whole = rng.random() < 0.5
        if whole:
            root = repo
            rc, err = run_script('gen_fast_metamanifest.py', [repo])
            script = 'metamanifest'
        else:
            # a single directory: a package, or eclass / licenses / a metadata sub-directory
            cands = sorted(set(os.path.dirname(p) for p in files if p.count('/') >= 1))
            cands = [c for c in cands if c and '/files' not in c and c not in ('profiles/arch/x86', 'profiles/arch')]
            # the script does not descend into a sub-directory that already has a Manifest (it expects
            # that one to have been generated before): only directories without such children
            cands = [c for c in cands if not any(p.startswith(c + '/') and p.count('/') > c.count('/') + 1
                                                  and os.path.basename(p) == 'Manifest' for p in files)]
            d = rng.choice(cands)
            root = os.path.join(repo, d)
            # standalone, nothing pre-populates the IGNORE lines for the timestamp files the script skips
            for dp, dn, fn in os.walk(root):
                for f in fn:
                    if f.startswith('timestamp'):
                        os.unlink(os.path.join(dp, f))
            rc, err = run_script('gen_fast_manifest.py', [root])
            script = 'manifest:' + d
            files = dict((p[len(d) + 1:], v) for p, v in files.items() if p.startswith(d + '/'))
        rec = {'script': script, 'end': 'ok' if rc == 0 else 'fail', 'verify1': '', 'upd_end': '', 'verify2': '',
               'upd2_end': '', 's1': None, 's1u': None, 's2': None,
               'meta': {'seed': seed, 'idx': idx, 'err': err if rc else ''}}
        empty = {'nodes': [], 'mfs': [], 'top': ['Manifest']}
        if rc != 0:
            rec.update(s1=empty, s1u=empty, s2=empty)
            return [rec]
        namer = fm.Namer()
        rec['s1'] = fm.project(root, top_of(root), namer=namer)
        rec['verify1'] = verify_tree(gem, root)
        rec['upd_end'] = update_tree(gem, root, whole)
        rec['s1u'] = fm.project(root, top_of(root), namer=namer)
        edit(rng, root, files)
        rec['upd2_end'] = update_tree(gem, root, whole)
        rec['s2'] = fm.project(root, top_of(root), namer=namer)
        rec['verify2'] = verify_tree(gem, root) if rec['upd2_end'] == 'ok' else ''
        return [rec]
    finally:
        shutil.rmtree(base, ignore_errors=True)
