"""C17 driver: hash_file on scripted streams (short-read schedules, size hints), real files around
the buffering thresholds through hash_path / get_file_metadata, the hash-name table against
independent implementations (hashlib one-shot, coreutils, openssl)."""
import hashlib
import os
import random
import shutil
import subprocess

from . import fsmodel as fm
from . import tlc

MANIFEST_NAMES = ['MD5', 'SHA1', 'SHA256', 'SHA512', 'RMD160', 'WHIRLPOOL', 'BLAKE2B', 'BLAKE2S', 'SHA3_256', 'SHA3_512']
COREUTILS = {'MD5': ['md5sum'], 'SHA1': ['sha1sum'], 'SHA256': ['sha256sum'], 'SHA512': ['sha512sum'],
             'BLAKE2B': ['b2sum']}
OPENSSL = {'SHA3_256': 'sha3-256', 'SHA3_512': 'sha3-512', 'BLAKE2S': 'blake2s256', 'RMD160': 'rmd160',
           'WHIRLPOOL': 'whirlpool'}


class ScriptedStream:
    """file-like object returning scripted chunk sizes; records every call"""

    def __init__(self, data, rng, style):
        self.data = data
        self.pos = 0
        self.rng = rng
        self.style = style
        self.calls = []

    def _n(self, asked):
        rem = len(self.data) - self.pos
        if rem == 0:
            return 0
        cap = rem if asked is None or asked < 0 else min(asked, rem)
        if self.style == 'full':
            return cap
        if self.style == 'one':
            return 1
        if self.style == 'half':
            return max(1, cap // 2)
        return self.rng.randrange(1, cap + 1)

    def read(self, size=-1):
        if size is None or size < 0:
            # io semantics: read() without a size returns everything up to EOF
            n = len(self.data) - self.pos
            self.calls.append(['readall', -1, n])
        else:
            n = self._n(size)
            self.calls.append(['read', size, n])
        b = self.data[self.pos:self.pos + n]
        self.pos += n
        return b

    def read1(self, size=-1):
        n = self._n(size if size is not None and size >= 0 else 65536)
        self.calls.append(['read1', size, n])
        b = self.data[self.pos:self.pos + n]
        self.pos += n
        return b


def reference(name, data):
    return fm.digest(name, data)


def stream_records(args):
    lens, seed = args
    from . import gem
    H = gem.gemato.hash
    rng = random.Random(seed)
    recs = []
    avail = [n for n in MANIFEST_NAMES if fm.digest(n, b'') is not None]
    for L in lens:
        data = bytes(rng.getrandbits(8) for _ in range(min(L, 4096))) * (L // 4096 + 1) if L > 4096 else \
            bytes(rng.getrandbits(8) for _ in range(L))
        data = data[:L]
        hints = [0, L, max(L // 2, 1), 1, L + 1, 2 * L + 3, 1048575, 1048576, 1048577]
        for hint in rng.sample(hints, 4) if L > 400 else hints[:6]:
            style = rng.choice(['full', 'rand', 'rand', 'half', 'one' if L <= 300 else 'rand'])
            names = rng.sample(avail, rng.randrange(1, 4))
            hl = [fm.HASHLIB[n] for n in names] + ['__size__']
            st = ScriptedStream(data, rng, style)
            try:
                res = H.hash_file(st, hl, _apparent_size=hint)
                size_ok = res.get('__size__') == L
                dig_ok = all(res.get(fm.HASHLIB[n]) == reference(n, data) for n in names)
            except Exception as e:  # noqa
                size_ok = dig_ok = False
            calls = st.calls
            if len(calls) > 24:       # keep the record small: the tail is aggregated, sums preserved
                calls = calls[:24] + [['rest', 0, sum(c[2] for c in calls[24:])]]
            recs.append({'kind': 'reads', 'len': L, 'hint': min(hint, 2**31 - 1), 'reads': calls,
                         'nreads': len(st.calls), 'size_ok': bool(size_ok), 'digests_ok': bool(dig_ok),
                         'names': names, 'style': style})
    return recs


def path_records(args):
    lens, seed = args
    from . import gem
    rng = random.Random(seed)
    d = tlc.scratch_dir('vh')
    recs = []
    try:
        avail = [n for n in MANIFEST_NAMES if fm.digest(n, b'') is not None]
        for L in lens:
            data = os.urandom(L)
            p = os.path.join(d, 'f%d' % L)
            with open(p, 'wb') as f:
                f.write(data)
            names = rng.sample(avail, 3)
            try:
                g = gem.gemato.verify.get_file_metadata(p, names)
                vals = list(g)
                ck = vals[-1]
                size_ok = ck.get('__size__') == L and vals[3] == L
                dig_ok = all(ck.get(n) == reference(n, data) for n in names)
            except Exception:  # noqa
                size_ok = dig_ok = False
            try:
                hp = gem.gemato.hash.hash_path(p, [fm.HASHLIB[n] for n in names] + ['__size__'])
                size_ok = size_ok and hp['__size__'] == L
                dig_ok = dig_ok and all(hp[fm.HASHLIB[n]] == reference(n, data) for n in names)
            except Exception:  # noqa
                size_ok = dig_ok = False
            # entry update path: update_entry_for_path with a wrong prior entry
            try:
                e = gem.gemato.manifest.ManifestEntryDATA('x', 0, {})
                gem.gemato.verify.update_entry_for_path(p, e, hashes=names)
                size_ok = size_ok and e.size == L
                dig_ok = dig_ok and all(e.checksums[n] == reference(n, data) for n in names)
            except Exception:  # noqa
                size_ok = dig_ok = False
            recs.append({'kind': 'path', 'len': L, 'size_ok': bool(size_ok), 'digests_ok': bool(dig_ok)})
            # the reported size is the number of bytes READ, for every hash set (also the empty one): the file
            # grows after its metadata has been looked at and before the content is consumed
            for hs in ([], names[:1], names):
                try:
                    g = gem.gemato.verify.get_file_metadata(p, hs)
                    pre = [next(g) for _ in range(5)]          # exists, dev, type, st_size, mtime
                    with open(p, 'ab') as f:
                        f.write(b'XYZ')
                    ck = next(g)
                    g.close()
                    cur = data + b'XYZ'
                    size_ok = ck.get('__size__') == len(cur) and pre[3] == len(data)
                    dig_ok = all(ck.get(n) == reference(n, cur) for n in hs)
                except Exception:  # noqa
                    size_ok = dig_ok = False
                recs.append({'kind': 'path', 'len': L, 'size_ok': bool(size_ok), 'digests_ok': bool(dig_ok)})
                with open(p, 'wb') as f:
                    f.write(data)
            # the same file again in the same process after an in-place rewrite that keeps length, inode and
            # mtime (rsync -t --inplace, cp -p, coarse timestamps): the digests are those of the bytes that are
            # there NOW
            if L > 0:
                for hs in (names, names[:1]):
                    try:
                        st0 = os.stat(p)
                        first = list(gem.gemato.verify.get_file_metadata(p, hs))[-1]
                        cur = bytes((b ^ 0x55) for b in data)
                        with open(p, 'r+b') as f:
                            f.write(cur)
                        os.utime(p, ns=(st0.st_atime_ns, st0.st_mtime_ns))
                        ck = list(gem.gemato.verify.get_file_metadata(p, hs))[-1]
                        e = gem.gemato.manifest.ManifestEntryDATA(
                            'x', L, dict((n, first[n]) for n in hs))
                        changed = gem.gemato.verify.update_entry_for_path(p, e, hashes=hs)
                        ok, diff = gem.gemato.verify.verify_path(
                            p, gem.gemato.manifest.ManifestEntryDATA('x', L, dict((n, reference(n, cur)) for n in hs)))
                        size_ok = ck.get('__size__') == L and e.size == L
                        dig_ok = all(ck.get(n) == reference(n, cur) for n in hs) and bool(changed) and bool(ok) \
                            and all(e.checksums[n] == reference(n, cur) for n in hs)
                    except Exception:  # noqa
                        size_ok = dig_ok = False
                    recs.append({'kind': 'path', 'len': L, 'size_ok': bool(size_ok), 'digests_ok': bool(dig_ok)})
                    with open(p, 'wb') as f:
                        f.write(data)
            os.unlink(p)
    finally:
        shutil.rmtree(d, ignore_errors=True)
    return recs


def external_digest(name, path):
    """digest by an implementation other than hashlib, or None"""
    if name in COREUTILS and shutil.which(COREUTILS[name][0]):
        out = subprocess.run(COREUTILS[name] + [path], stdout=subprocess.PIPE).stdout.decode()
        return out.split()[0]
    if name in OPENSSL and shutil.which('openssl'):
        p = subprocess.run(['openssl', 'dgst', '-' + OPENSSL[name], path], stdout=subprocess.PIPE,
                           stderr=subprocess.PIPE)
        if p.returncode == 0:
            return p.stdout.decode().strip().split('= ')[-1]
    return None


def name_records(seed):
    from . import gem
    H = gem.gemato.hash
    M = gem.gemato.manifest
    E = gem.gemato.exceptions
    rng = random.Random(seed)
    d = tlc.scratch_dir('vhn')
    recs = []
    try:
        data = bytes(rng.getrandbits(8) for _ in range(70000))
        p = os.path.join(d, 'blob')
        with open(p, 'wb') as f:
            f.write(data)
        for name in MANIFEST_NAMES + ['FOO', 'sha1', 'SHA-256', '']:
            # Manifest name -> algorithm, through the public table and the hasher
            try:
                hl = list(M.manifest_hashes_to_hashlib([name]))[0]
                got = H.hash_path(p, [hl])[hl]
                outcome = 'digest'
            except E.UnsupportedHash:
                got, outcome = None, 'unsupported'
            except Exception:  # noqa
                got, outcome = None, 'other'
            ext = external_digest(name, p)
            ref = ext if ext is not None else reference(name, data)
            supported = name in MANIFEST_NAMES and (ext is not None or reference(name, data) is not None)
            recs.append({'kind': 'name', 'name': name, 'supported': bool(supported), 'outcome': outcome,
                         'matches_reference': bool(got is not None and ref is not None and got == ref),
                         'reference': 'external' if ext is not None else 'hashlib'})
        for hl in sorted(hashlib.algorithms_available) + ['bogus', 'whirlpool', 'SHA256']:
            if hl.startswith('shake'):
                continue                    # XOF: lenient
            try:
                got = H.hash_path(p, [hl])[hl]
                outcome = 'digest'
            except E.UnsupportedHash:
                got, outcome = None, 'unsupported'
            except Exception:  # noqa
                got, outcome = None, 'other'
            sup = hl in hashlib.algorithms_available
            ref = hashlib.new(hl, data).hexdigest() if sup else None
            recs.append({'kind': 'name', 'name': 'hashlib:' + hl, 'supported': sup, 'outcome': outcome,
                         'matches_reference': bool(got is not None and got == ref), 'reference': 'hashlib'})
    finally:
        shutil.rmtree(d, ignore_errors=True)
    return recs
