"""Drivers for the operations outside the listed properties' main paths (specification growth):
single-path update, find/set_timestamp, `gemato hash`, multi-path `gemato verify`."""
import datetime
import hashlib
import os
import random
import shutil

from . import drv_update
from . import fsmodel as fm
from . import gen
from . import tlc


def one_tree(args):
    seed, idx, o = args
    from . import gem
    rng = random.Random('api-%d-%d' % (seed, idx))
    base = tlc.scratch_dir('va')
    recs = []
    try:
        root = os.path.join(base, 't')
        os.mkdir(root)
        L = gen.random_layout(rng, links=False)
        L.write(root)
        for _ in range(rng.choice([0, 1, 2])):
            gen.mutate(rng, L, root, kind=rng.choice(['delete', 'alter_same', 'alter_size', 'stray']))
        meta = {'seed': seed, 'idx': idx}
        top = os.path.join(root, 'Manifest')
        # ---- update_entry_for_path
        cands = sorted(L.files) + ['stray', 'newfile']
        path = rng.choice(cands)
        if path == 'newfile':
            with open(os.path.join(root, 'newfile'), 'wb') as f:
                f.write(b'brand new')
        hashes = rng.choice(drv_update.HASHSETS)
        namer = fm.Namer()
        s0 = fm.project(root, 'Manifest', namer=namer)
        owned = set(drv_update._unname(namer, m['p']) for m in s0['mfs'])
        snap0 = drv_update.raw_snapshot(root)
        obs, ld = gem.call(gem.loader, top, hashes=list(hashes))
        before = []
        if obs['end'] == 'ok':
            obs, _ = gem.call(ld.update_entry_for_path, path)
            before = drv_update.diff_snap(snap0, drv_update.raw_snapshot(root))
            if obs['end'] == 'ok':
                obs, _ = gem.call(ld.save_manifests)
        s1 = fm.project(root, 'Manifest', namer=namer)
        for m in s1['mfs']:
            owned.add(drv_update._unname(namer, m['p']))
        changed = drv_update.diff_snap(snap0, drv_update.raw_snapshot(root))
        nonmf = [p for p in changed if not drv_update.is_manifest_name(p, owned)]
        # IGNOREd or hidden targets: the API documents "must not be covered by IGNORE" -> not driven
        recs.append({'kind': 'update_path', 's0': s0, 's1': s1, 'path': namer.path(path), 'hashes': sorted(hashes),
                     'end': obs['end'], 'exc': obs['exc'], 'before_save': [namer.path(p) for p in before],
                     'nonmf_changed': [namer.path(p) for p in nonmf], 'meta': dict(meta, path=path)})
        # ---- find_timestamp / set_timestamp on a fresh loader
        s0 = s1
        obs, ld = gem.call(gem.loader, top)
        found, setv = '', ''
        if obs['end'] == 'ok':
            obs, e = gem.call(ld.find_timestamp)
            if obs['end'] == 'ok' and e is not None:
                found = e.ts.strftime('%Y-%m-%dT%H:%M:%SZ')
            if obs['end'] == 'ok' and rng.random() < 0.7:
                ts = datetime.datetime(2021, rng.randrange(1, 13), rng.randrange(1, 28), 1, 2, 3)
                obs, _ = gem.call(ld.set_timestamp, ts)
                setv = ts.strftime('%Y-%m-%dT%H:%M:%SZ')
                if obs['end'] == 'ok':
                    # set_timestamp does not queue the Manifest by itself: force the save
                    obs, _ = gem.call(ld.save_manifests, force=True, hashes=['SHA256'])
        s2 = fm.project(root, 'Manifest', namer=namer)
        if setv and obs['end'] == 'ok':
            recs.append({'kind': 'timestamp', 's0': _reg_only(s0), 's1': _reg_only(s2), 'found': found, 'set': setv,
                         'end': obs['end'], 'meta': meta})
        elif not setv:
            recs.append({'kind': 'timestamp', 's0': _reg_only(s0), 's1': _reg_only(s0), 'found': found, 'set': '',
                         'end': obs['end'], 'meta': meta})
        # ---- gemato hash
        files = [p for p in sorted(L.files) if os.path.isfile(os.path.join(root, p))]
        if files:
            p = rng.choice(files)
            hs = sorted(rng.choice([['SHA256'], ['MD5', 'SHA1'], ['BLAKE2B', 'SHA512', 'SHA3_256']]))
            o2 = gem.run_cli(['hash', '-H', ' '.join(hs), os.path.join(root, p)])
            data = open(os.path.join(root, p), 'rb').read()
            want = ' '.join(['DATA', os.path.join(root, p), str(len(data))] +
                            [x for h in hs for x in (h, fm.digest(h, data))])
            # the path is printed escaped: compare after unescaping the second field
            line = o2['out'].strip('\n')
            parts = line.split(' ')
            ok = len(parts) == len(want.split(' ')) - (os.path.join(root, p).count(' ')) and True
            got_path = fm.unescape(parts[1]) if len(parts) > 1 else None
            line_ok = bool(len(parts) >= 3 and parts[0] == 'DATA' and got_path == os.path.join(root, p)
                           and parts[2:] == [str(len(data))] + [x for h in hs for x in (h, fm.digest(h, data))])
            recs.append({'kind': 'hashcmd', 'line_ok': line_ok, 'status': (o2['status'] or 0) if o2['end'] == 'ok' else -1,
                         'meta': dict(meta, line=line[:200])})
        # ---- multi-path verify
        dirs = [d for d in L.dirs if os.path.isdir(os.path.join(root, d)) and not any(c.startswith('.') for c in d.split('/'))]
        if len(dirs) >= 2 and not any(os.path.basename(p).startswith('Manifest') for p in os.listdir(root) if p != 'Manifest'):
            # discrepancies in several directories, so that more than one path has something to report
            for _ in range(rng.randrange(0, 4)):
                gen.mutate(rng, L, root, kind=rng.choice(['delete', 'alter_same', 'alter_size', 'stray']),
                           manifest_names=False)
            ps = rng.sample(dirs, min(len(dirs), rng.randrange(2, 4)))
            single, ksingle = [], []

            def reports(o):
                return sorted('/'.join(namer.path(eo.path)) for eo in o['error_objs']
                              if isinstance(eo, gem.gemato.exceptions.ManifestMismatch))
            raised = False
            for d in ps:
                o3 = gem.run_cli(['verify', '-P', os.path.join(root, d) if d else root])
                single.append((o3['status'] or 0) if o3['end'] == 'ok' else 1)
                o5 = gem.run_cli(['verify', '-P', '-k', os.path.join(root, d) if d else root])
                ksingle += reports(o5)
                # something other than a mismatch was logged: the run of this path was cut short
                raised = raised or o5['end'] != 'ok' or (o5['status'] not in (0, None) and not reports(o5)) or any(
                    isinstance(eo, Exception) and not isinstance(eo, gem.gemato.exceptions.ManifestMismatch)
                    for eo in o5['error_objs'])
            argv = [os.path.join(root, d) if d else root for d in ps]
            o4 = gem.run_cli(['verify', '-P'] + argv)
            o6 = gem.run_cli(['verify', '-P', '-k'] + argv)
            recs.append({'kind': 'multiverify', 'single': single, 'status': (o4['status'] or 0) if o4['end'] == 'ok' else 1,
                         'ksingle': sorted(ksingle), 'kmulti': reports(o6), 'kraised': bool(raised),
                         'meta': dict(meta, paths=ps)})
        return recs
    finally:
        shutil.rmtree(base, ignore_errors=True)


def _reg_only(s):
    return {'nodes': [], 'mfs': [m for m in s['mfs']], 'top': s['top']}
