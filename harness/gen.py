"""Seeded generator of concrete trees with Manifest layouts (direction 2 drivers).

A Layout keeps, in memory, which Manifest file holds which entries; write() puts it on disk with the
harness's own writer (never gemato's), computing MANIFEST entries bottom-up.  Mutations then act
on the disk, optionally followed by the attacker's "recompute up to level k" (C02)."""
import os
import shutil

from . import fsmodel as fm

NAMES = ['a', 'ab', 'a b', 'a.b', 'b', 'da', 'zażółć', 'b\\s', 'x\ty', 'q r', 'Ünï', 'f1', 'f2',
         'metadata.xml', 'foo-1.ebuild', '\U0001F600']
DIRNAMES = ['d', 'da', 'd e', 'e', 'sub', 'files', 'żd', 'x\\y']
HIDDEN = ['.h', '.git', '.hidden file']
HASHSETS = [['SHA256'], ['SHA1', 'SHA512'], ['BLAKE2B', 'SHA512'], ['MD5'], [], ['SHA3_256', 'BLAKE2S']]
COMPS = ['plain', 'gz', 'bz2', 'lzma', 'xz']


def palette(rng):
    """contents: several of equal size with different bytes, several sizes, empty"""
    pal = [b'', b'x', b'y', b'abc', b'abd', b'xbc', b'hello world\n', b'hello w0rld\n']
    pal.append(bytes(rng.randrange(256) for _ in range(rng.choice([5, 40, 200]))))
    pal.append(bytes(rng.randrange(256) for _ in range(len(pal[-1]))))
    return pal


class Layout:
    def __init__(self, rng):
        self.rng = rng
        self.dirs = ['']
        self.files = {}        # relpath -> bytes
        self.links = {}        # relpath -> target relpath (relative to root)
        self.mtimes = {}
        self.mf = {}           # manifest relpath -> list of entries (dict); MANIFEST entries carry 'ref'
        self.top = 'Manifest'

    # -- construction ---------------------------------------------------------------------
    def mdir(self, mp):
        return os.path.dirname(mp)

    def governing(self, path, exclude=None):
        """Manifests whose directory contains path, deepest first"""
        res = []
        for mp in self.mf:
            d = self.mdir(mp)
            if d == '' or path.startswith(d + '/'):
                res.append(mp)
        res.sort(key=lambda m: -len(self.mdir(m)))
        return res

    def rel(self, path, mp):
        d = self.mdir(mp)
        return path if d == '' else path[len(d) + 1:]

    def add_file_entry(self, mp, path, data, tag='DATA', hashes=('SHA256',)):
        if tag == 'AUX' and not self.rel(path, mp).startswith('files/'):
            tag = 'DATA'        # AUX can only name paths under files/ next to its Manifest
        e = fm.make_entry(tag, self.rel(path, mp), data, hashes)
        self.mf[mp].append(e)
        return e

    def order(self):
        """Manifests in write order: referenced before referencing"""
        done, out = set(), []

        def visit(mp, stack=()):
            if mp in done or mp in stack:
                return
            for e in self.mf[mp]:
                if e['tag'] == 'MANIFEST' and e.get('ref') in self.mf:
                    visit(e['ref'], stack + (mp,))
            done.add(mp)
            out.append(mp)
        for mp in sorted(self.mf, key=lambda m: -m.count('/')):
            visit(mp)
        return out

    def write(self, root, only=None):
        for d in self.dirs:
            os.makedirs(os.path.join(root, d), exist_ok=True)
        for p, data in self.files.items():
            fp = os.path.join(root, p)
            with open(fp, 'wb') as f:
                f.write(data)
            mt = self.mtimes.get(p, 100)
            os.utime(fp, (fm.BASE_MTIME + mt, fm.BASE_MTIME + mt))
        for p, t in self.links.items():
            fp = os.path.join(root, p)
            if not os.path.lexists(fp):
                os.symlink(os.path.relpath(os.path.join(root, t), os.path.dirname(fp)), fp)
        self.write_manifests(root)

    def write_manifests(self, root, only=None, hashes_for_manifest=None):
        """(Re)write Manifest files bottom-up; MANIFEST entries with 'ref' get the true size and
        digests of the referenced file as it is on disk now.  `only`: set of manifest paths to
        rewrite (others left as they are on disk, their parents' entries still recomputed only if
        the parent is in `only`)."""
        for mp in self.order():
            if only is not None and mp not in only:
                continue
            for e in self.mf[mp]:
                if e['tag'] == 'MANIFEST' and e.get('ref') and not e.get('frozen'):
                    try:
                        with open(os.path.join(root, e['ref']), 'rb') as f:
                            data = f.read()
                    except OSError:
                        continue
                    hs = list(e['ck']) or ([] if e.get('sizeonly') else ['SHA256'])
                    e['size'] = len(data)
                    if e.get('unsup'):
                        continue        # only hash names nobody can compute: the values stay as they are
                    e['ck'] = dict((h, fm.digest(h, data)) for h in hs)
            for e in self.mf[mp]:
                if e.get('selfsize'):
                    # an entry of a plain Manifest for itself that states its true size (fixed point)
                    for _ in range(6):
                        n = len(fm.manifest_bytes(self.mf[mp], 'plain'))
                        if e['size'] == n:
                            break
                        e['size'] = n
            fp = os.path.join(root, mp)
            os.makedirs(os.path.dirname(fp), exist_ok=True)
            with open(fp, 'wb') as f:
                f.write(fm.manifest_bytes(self.mf[mp], fm.compression_of(mp)))


def random_layout(rng, depth=3, maxfiles=10, comps=COMPS, odd=0.15, links=True, dupnames=False, selfent=False):
    """A consistent tree + Manifest layout with the features C01's quantifier lists."""
    L = Layout(rng)
    pal = palette(rng)
    # directories
    ndirs = rng.randrange(0, 5)
    for _ in range(ndirs):
        parent = rng.choice(L.dirs)
        if parent.count('/') + 1 >= depth and parent != '':
            parent = ''
        name = rng.choice(DIRNAMES + (HIDDEN[:2] if rng.random() < 0.1 else []))
        d = name if parent == '' else parent + '/' + name
        if d not in L.dirs:
            L.dirs.append(d)
    # files
    for _ in range(rng.randrange(1, maxfiles)):
        d = rng.choice(L.dirs)
        name = rng.choice(NAMES + (HIDDEN if rng.random() < 0.15 else []))
        p = name if d == '' else d + '/' + name
        if p in L.dirs or p in L.files:
            continue
        L.files[p] = rng.choice(pal)
        L.mtimes[p] = rng.choice([10, 50, 100, 150])
    # symlinks
    if links and rng.random() < 0.3 and L.files:
        t = rng.choice(sorted(L.files))
        d = rng.choice(L.dirs)
        p = ('lnk' if d == '' else d + '/lnk')
        if p not in L.files and p not in L.dirs:
            L.links[p] = t
    if links and rng.random() < 0.2 and len(L.dirs) > 2:
        t = rng.choice(L.dirs[1:])
        d = rng.choice([x for x in L.dirs if not (x == t or x.startswith(t + '/'))
                        and not (t.startswith(x + '/') and False)])
        p = ('dl' if d == '' else d + '/dl')
        if rng.random() < 0.5:
            # an alias next to its target whose name begins with the target's name (pkg -> pkg-compat)
            p = t + '-compat'
        # only links to directories that are not ancestors of the link (no loops here; C16 does loops)
        if not (p.startswith(t + '/')) and p not in L.dirs and p not in L.files \
                and not any(part.startswith('.') for part in t.split('/')):
            L.links[p] = t
    # Manifest placement
    L.mf['Manifest'] = []
    for d in L.dirs[1:]:
        if rng.random() < 0.45 and not any(c.startswith('.') for c in d.split('/')):
            comp = rng.choice(comps)
            mp = d + '/Manifest' + ('' if comp == 'plain' else '.' + comp)
            L.mf[mp] = []
            if rng.random() < 0.15:     # a second Manifest in the same directory
                comp2 = rng.choice(comps)
                L.mf[d + '/Manifest.extra' + ('' if comp2 == 'plain' else '.' + comp2)] = []
    # IGNORE entries
    ignored = []
    for d in L.dirs[1:]:
        if rng.random() < 0.12:
            govs = L.governing(d + '/x')
            govs = [g for g in govs if L.mdir(g) != d and not (L.mdir(g) + '/').startswith(d + '/')]
            if govs:
                mp = rng.choice(govs)
                L.mf[mp].append({'tag': 'IGNORE', 'path': L.rel(d, mp), 'size': 0, 'ck': {}})
                ignored.append(d)

    def is_ignored(p):
        return any(p == i or p.startswith(i + '/') for i in ignored)

    def is_hidden(p):
        return any(c.startswith('.') for c in p.split('/'))

    # drop Manifests that ended up under ignored dirs
    for mp in list(L.mf):
        if is_ignored(mp):
            del L.mf[mp]
    # a directory symlink whose target holds Manifest files would show them as unlisted files
    for lp, t in list(L.links.items()):
        if t in L.dirs and any(mp.startswith(t + '/') for mp in L.mf):
            del L.links[lp]
    # link-visible files: files reachable through directory symlinks need entries as well
    logical_files = dict(L.files)
    for lp, t in L.links.items():
        if t in L.dirs:
            for p, data in L.files.items():
                if p.startswith(t + '/'):
                    logical_files[lp + p[len(t):]] = data
            # Manifests inside the target directory are files too when seen through the link
        else:
            logical_files[lp] = L.files[t]
    # file entries
    for p, data in sorted(logical_files.items()):
        if is_ignored(p):
            if rng.random() < 0.1:
                pass
            continue
        if is_hidden(p) and rng.random() < 0.7:
            continue
        if rng.random() < 0.06 and p in L.files:
            govs = L.governing(p)
            mp = rng.choice(govs)
            L.mf[mp].append({'tag': 'IGNORE', 'path': L.rel(p, mp), 'size': 0, 'ck': {}})
            ignored.append(p)
            continue
        govs = L.governing(p)
        mp = govs[0] if rng.random() < 0.75 else rng.choice(govs)
        tag = rng.choice(['DATA'] * 6 + ['MISC', 'EBUILD'])
        hs = rng.choice(HASHSETS)
        relp = L.rel(p, mp)
        if rng.random() < 0.15 and relp.startswith('files/') and len(relp) > 6:
            tag = 'AUX'
        e0 = L.add_file_entry(mp, p, data, tag, hs)
        if dupnames and hs and rng.random() < 0.04:
            # a checksum name listed twice in one entry (wrong value first or last, or twice the right one)
            h = rng.choice(sorted(hs))
            good = e0['ck'][h]
            bad = fm.digest(h, data + b'x') if rng.random() < 0.7 else '0' * len(good)
            pairs = [[k, e0['ck'][k]] for k in sorted(e0['ck'])]
            at = [k for k, _ in pairs].index(h)
            how = rng.choice(['bad_first', 'bad_first', 'bad_last', 'twice'])
            if how == 'bad_first':
                pairs.insert(at, [h, bad])
            elif how == 'bad_last':
                pairs.insert(at + 1, [h, bad])
            else:
                pairs.insert(at, [h, good])
            e0['ckl'] = pairs
        r = rng.random()
        if r < 0.08:      # compatible duplicate, other hash set, possibly in another Manifest
            mp2 = rng.choice(govs)
            L.add_file_entry(mp2, p, data, tag if rng.random() < 0.5 else 'DATA'
                             if tag in ('DATA', 'EBUILD', 'AUX') else tag, rng.choice(HASHSETS))
        elif r < 0.12:    # conflicting duplicate
            mp2 = rng.choice(govs)
            other = rng.choice([x for x in palette(rng) if x != data])
            kind = rng.choice(['size', 'hash', 'type'])
            if kind == 'type':
                t2 = 'MISC' if tag != 'MISC' else 'DATA'
                L.add_file_entry(mp2, p, data, t2, hs)
            elif kind == 'hash':
                # conflict on exactly one shared hash; the other entry may list further hashes
                same = [x for x in palette(rng) if len(x) == len(data) and x != data]
                if same and hs:
                    hs2 = sorted(set(hs) | set(rng.choice(HASHSETS)))
                    e2 = L.add_file_entry(mp2, p, data, tag, hs2)
                    bad = rng.choice(sorted(hs))
                    e2['ck'][bad] = fm.digest(bad, same[0])
                    if rng.random() < 0.5:      # order of the two entries
                        L.mf[mp2].remove(e2)
                        L.mf[mp2].insert(0, e2)
            else:
                L.add_file_entry(mp2, p, other, tag, hs)
    # Manifests seen through directory links are strays unless listed: list them as DATA
    # MANIFEST references child -> parent
    for mp in sorted(L.mf, key=lambda m: m.count('/')):
        if mp == 'Manifest':
            continue
        govs = [g for g in L.governing(mp) if L.mdir(g) != L.mdir(mp)]
        same = [g for g in L.mf if L.mdir(g) == L.mdir(mp) and g != mp and g.endswith(('Manifest', 'Manifest.gz', 'Manifest.bz2', 'Manifest.lzma', 'Manifest.xz')) and 'extra' in mp]
        if same:
            par = same[0]          # Manifest.extra is referenced from the Manifest in the same dir
        else:
            par = govs[0] if rng.random() < 0.85 else rng.choice(govs)
        L.mf[par].append({'tag': 'MANIFEST', 'path': L.rel(mp, par), 'size': 0,
                          'ck': dict((h, '') for h in rng.choice(HASHSETS[:4])), 'ref': mp})
    # a Manifest with an entry for itself: an entry like any other (wrong size or digest, IGNORE, or - for a
    # plain Manifest - its true size without digests)
    if selfent:
        for mp in sorted(L.mf):
            if rng.random() < 0.06:
                b = os.path.basename(mp)
                how = rng.choice(['wrong', 'wrong', 'ignore', 'size'])
                if how == 'ignore':
                    L.mf[mp].append({'tag': 'IGNORE', 'path': b, 'size': 0, 'ck': {}})
                elif how == 'size' and fm.compression_of(mp) == 'plain':
                    L.mf[mp].append({'tag': rng.choice(['MANIFEST', 'DATA']), 'path': b, 'size': 0, 'ck': {},
                                     'selfsize': True})
                else:
                    L.mf[mp].append({'tag': rng.choice(['MANIFEST', 'DATA', 'MISC']), 'path': b,
                                     'size': rng.choice([0, 1, 77]),
                                     'ck': rng.choice([{}, {'SHA256': '0' * 64}, {'MD5': 'd41d8cd98f00b204e9800998ecf8427e'}])})
    # unrelated entries
    if rng.random() < 0.3:
        L.mf['Manifest'].append({'tag': 'DIST', 'path': 'foo-1.tar.gz', 'size': 123, 'ck': {'SHA256': 'ab' * 32}})
    if rng.random() < 0.3:
        L.mf['Manifest'].append({'tag': 'TIMESTAMP', 'path': '', 'size': 0, 'ck': {}, 'ts': '2017-07-14T02:40:00Z'})
    for mp in L.mf:
        if rng.random() < 0.7:
            rng.shuffle(L.mf[mp])
    return L


def fix_link_visible_manifests(L):
    """Manifest files inside a directory that is also reachable through a symlink show up as
    plain files there: give them DATA entries so that the consistent tree is consistent."""
    pass


MUTATIONS = ['delete', 'alter_same', 'alter_size', 'stray', 'retype_dir', 'retype_file', 'touch',
             'tamper_manifest', 'stray_dir', 'fifo']


def mutate(rng, L, root, kind=None, manifest_names=True):
    """Apply one mutation to the tree on disk.  Returns description dict or None."""
    kind = kind or rng.choice(MUTATIONS)
    files = sorted(L.files)
    if kind in ('delete', 'alter_same', 'alter_size', 'retype_dir', 'touch') and not files:
        return None
    if kind == 'delete':
        p = rng.choice(files)
        fp = os.path.join(root, p)
        if os.path.isfile(fp) and not os.path.islink(fp):
            os.unlink(fp)
            return {'m': kind, 'p': p}
    elif kind == 'alter_same':
        p = rng.choice(files)
        fp = os.path.join(root, p)
        if os.path.isfile(fp) and os.path.getsize(fp) > 0:
            with open(fp, 'rb') as f:
                data = bytearray(f.read())
            k = rng.randrange(len(data))
            data[k] ^= 1 << rng.randrange(8)
            st = os.stat(fp)
            with open(fp, 'wb') as f:
                f.write(data)
            mt = rng.choice([st.st_mtime, fm.BASE_MTIME + 120, fm.BASE_MTIME + 30, fm.BASE_MTIME + 119.7,
                             fm.BASE_MTIME + 119.7, fm.BASE_MTIME + 120.7, fm.BASE_MTIME + 119.2])
            os.utime(fp, (mt, mt))
            return {'m': kind, 'p': p}
    elif kind == 'alter_size':
        p = rng.choice(files)
        fp = os.path.join(root, p)
        if os.path.isfile(fp):
            st = os.stat(fp)
            with open(fp, 'ab') as f:
                f.write(b'+')
            mt = rng.choice([st.st_mtime, fm.BASE_MTIME + 120])
            os.utime(fp, (mt, mt))
            return {'m': kind, 'p': p}
    elif kind in ('stray', 'stray_dir', 'fifo'):
        d = rng.choice(L.dirs)
        name = rng.choice(['stray', 'a b2', 'new\\file', '.stray'] + (['Manifest', 'Manifest.gz', 'Manifest.old'] if manifest_names else [])) if kind != 'stray_dir' else 'newdir'
        if kind == 'stray' and rng.random() < 0.25:
            # a new local file that bears the name of a DIST entry of a Manifest in its directory (a distfile
            # and a file of the tree are different things)
            dn = [(os.path.dirname(mp), e['path']) for mp in sorted(L.mf) for e in L.mf[mp] if e['tag'] == 'DIST']
            if dn:
                d, name = rng.choice(dn)
        if kind == 'fifo' and name.startswith('Manifest'):
            # a FIFO with a Manifest name makes gemato's Manifest discovery block in open() for ever
            # (observation recorded in DESIGN 19; not a case any listed property speaks about)
            name = 'pipe'
        dp = os.path.join(root, d)
        if not os.path.isdir(dp):
            return None
        fp = os.path.join(dp, name)
        if os.path.lexists(fp):
            return None
        if kind == 'stray':
            with open(fp, 'wb') as f:
                f.write(b'stray')
        elif kind == 'fifo':
            os.mkfifo(fp)
        else:
            os.mkdir(fp)
            if rng.random() < 0.7:
                with open(os.path.join(fp, 'inner'), 'wb') as f:
                    f.write(b'inner')
        return {'m': kind, 'p': (d + '/' if d else '') + name}
    elif kind == 'retype_dir':
        p = rng.choice(files)
        fp = os.path.join(root, p)
        if os.path.isfile(fp) and not os.path.islink(fp):
            os.unlink(fp)
            os.mkdir(fp)
            return {'m': kind, 'p': p}
    elif kind == 'retype_file':
        ds = [d for d in L.dirs[1:] if os.path.isdir(os.path.join(root, d))
              and not os.path.islink(os.path.join(root, d))]
        if ds:
            d = rng.choice(ds)
            shutil.rmtree(os.path.join(root, d))
            with open(os.path.join(root, d), 'wb') as f:
                f.write(b'now a file')
            return {'m': kind, 'p': d}
    elif kind == 'touch':
        p = rng.choice(files)
        fp = os.path.join(root, p)
        if os.path.isfile(fp):
            mt = fm.BASE_MTIME + rng.choice([5, 99, 100, 101, 500])
            os.utime(fp, (mt, mt))
            return {'m': kind, 'p': p}
    elif kind == 'tamper_manifest':
        subs = [m for m in L.mf if m != 'Manifest' and os.path.isfile(os.path.join(root, m))]
        if subs:
            mp = rng.choice(subs)
            ents = list(L.mf[mp])
            how = rng.choice(['drop', 'add', 'reorder'])
            if how == 'drop' and ents:
                ents.pop(rng.randrange(len(ents)))
            elif how == 'add':
                ents.append({'tag': 'IGNORE', 'path': 'stray', 'size': 0, 'ck': {}})
            else:
                ents = ents[::-1] + [{'tag': 'DIST', 'path': 'zz', 'size': 1, 'ck': {}}]
            with open(os.path.join(root, mp), 'wb') as f:
                f.write(fm.manifest_bytes(ents, fm.compression_of(mp)))
            return {'m': kind, 'p': mp, 'how': how}
    return None
