"""The checks, one function per property."""
import os
import random

from . import core, tlc


def _sig_verify(r):
    """distinct-scenario signature of a verification record: abstract shape, not names"""
    s = r['s']
    ev = r['ev']
    return hash((tuple(sorted((len(n['p']), n['k'], n['size'], n['h']) for n in s['nodes'])),
                 tuple(tuple(sorted((e['tag'], len(e['p']), e['size'], len(e['ck'])) for e in m['entries']))
                       for m in s['mfs']),
                 ev['api'], ev['keep'], len(ev['sub']), ev['last'] >= 0, ev['end'], ev['exc'], ev['ret']))


def _export(ctx, module, cfg_base, overrides, sample=None, rng=None):
    """Run an MC config with Export = TRUE and return the printed behaviours."""
    specs = tlc.SPECS
    with open(os.path.join(specs, cfg_base)) as f:
        text = f.read()
    text = text.replace('Export = FALSE', 'Export = TRUE')
    for a, b in overrides:
        assert a in text, (a, cfg_base)
        text = text.replace(a, b)
    # invariants are checked in the plain MC run; the export run only prints
    text = '\n'.join(l for l in text.splitlines() if not l.startswith('INVARIANT')) + '\n'
    name = '.export_%d_%s' % (os.getpid(), cfg_base)
    path = os.path.join(specs, name)
    with open(path, 'w') as f:
        f.write(text)
    try:
        res = tlc.run_tlc(module, name, workers=16)
    finally:
        os.unlink(path)
    if res['rc'] != 0:
        raise tlc.MachineryError('export run failed: ' + res['out'][-2000:])
    behs = tlc.parse_json_prints(res['out'])
    if not behs:
        raise tlc.MachineryError('export run printed nothing: ' + res['out'][-2000:])
    if sample is not None and len(behs) > sample:
        behs = rng.sample(behs, sample)
    return behs


def run_verify_family(ctx, quick_n, thorough_n, lookups=False, want=('lib', 'keep', 'cli', 'clik')):
    """Shared body of C01 / C02 / C07: Layer-A model check, direction 1 replay of exported
    behaviours, direction 2 seeded trees; everything judged by TraceVerify.tla."""
    from . import drv_verify
    rng = random.Random(ctx.seed)
    thorough = ctx.tier == 'thorough'
    # 1. design level
    # the three-name family takes about half an hour on 16 cores: C01's thorough tier only; the thorough
    # tiers of C02 and C07 check their invariants on the two two-name families (plain + look-alike pair)
    if thorough and ctx.pid == 'C01':
        ctx.mc('MC_Verify', 'MC_Verify_flat_thorough.cfg', timeout=9000)
    else:
        ctx.mc('MC_Verify', 'MC_Verify_flat_quick.cfg', timeout=3000)
    if thorough:
        ctx.mc('MC_Verify', 'MC_Verify_flat_pair.cfg', timeout=3000)
    ctx.mc('MC_Verify', 'MC_Verify_nest.cfg')
    # the model with the historical short-circuit must exhibit the C07 defect (faithfulness)
    if thorough or ctx.pid == 'C07':
        ctx.mc('MC_Verify', 'MC_Verify_flat_F1.cfg', expect_violation='C07_Exact', coverage=False)
    # 2. direction 1
    n1 = thorough_n[0] if thorough else quick_n[0]
    behs = _export(ctx, 'MC_Verify', 'MC_Verify_flat_quick.cfg', [], sample=n1, rng=rng)
    behs += _export(ctx, 'MC_Verify', 'MC_Verify_nest.cfg', [], sample=n1, rng=rng)
    out = core.pool_map(drv_verify.replay_behaviour, list(enumerate(behs)))
    recs = [r for o in out for r in o]
    ndrift = 0
    for r in recs:
        for d in r.pop('drift', []):
            ndrift += 1
            ctx.drift[d] = ctx.drift.get(d, 0) + 1
            if ndrift <= 5:
                print('DRIFT: %s %s' % (ctx.pid, d))
    metas = [r.pop('meta') for r in recs]
    ctx.judge('TraceVerify', 'TraceVerify.cfg', recs, metas, {'driver': 'replay_behaviour'},
              sig=_sig_verify)
    ctx.extra['replayed_behaviours'] = len(behs)
    if recs:
        ctx.sample({'direction': 'spec->code', 'ev': recs[0]['ev'], 'nodes': len(recs[0]['s']['nodes'])})
    # 3. direction 2
    n2 = thorough_n[1] if thorough else quick_n[1]
    args = [(ctx.seed, i, {'lookups': lookups, 'want': want}) for i in range(n2)]
    out = core.pool_map(drv_verify.one_scenario, args)
    out += core.pool_map(drv_verify.alias_family, [(ctx.seed, i, {'want': want}) for i in range(max(n2 // 5, 60))])
    if ctx.pid == 'C01':
        # directed family for the last_mtime clause (sub-second distances around last_mtime)
        out += core.pool_map(drv_verify.last_mtime_family, [(ctx.seed, i, {}) for i in range(max(n2 // 2, 120))])
    recs = [r for o in out for r in o]
    metas = [r.pop('meta') for r in recs]
    # split into several JVM runs to bound memory
    for k in range(0, len(recs), 6000):
        ctx.judge('TraceVerify', 'TraceVerify.cfg', recs[k:k + 6000], metas[k:k + 6000],
                  {'driver': 'one_scenario'}, sig=_sig_verify)
    for r in recs[:3]:
        ctx.sample({'direction': 'code->spec', 'ev': r['ev'],
                    'scenario': {'nodes': [(n['p'], n['k']) for n in r['s']['nodes']][:12],
                                 'manifests': [m['p'] for m in r['s']['mfs']]}})
    ctx.extra['generated_scenarios'] = n2


RULE_VERIFY = ('spec->code: behaviours of the bounded Layer-A models (families flat, nest) exported by TLC, '
               'materialised and run through the real verifier; code->spec: seeded random trees with '
               'Manifest layouts and 0-3 mutations; every call is one record judged by TLC against '
               'Glep74!Matches/Offending/Accepted.  distinct_nontrivial counts distinct abstract '
               '(tree shape, entry shape, call, outcome) signatures.')


def c01(ctx):
    run_verify_family(ctx, (1100, 250), (12000, 6000))
    ctx.assumptions += ['harness projection and independent Manifest reader are correct',
                        'TLC evaluates Glep74 operators correctly',
                        'lenient zones (DESIGN 5.1) are not judged']
    return ctx.finish(rule=RULE_VERIFY)


def c02(ctx):
    from . import drv_verify
    run_verify_family(ctx, (500, 100), (6000, 2000), lookups=True, want=('lib',))
    n = 4000 if ctx.tier == 'thorough' else 250
    out = core.pool_map(drv_verify.one_tamper, [(ctx.seed, i, {}) for i in range(n)])
    recs = [r for o in out for r in o]
    metas = [r.pop('meta') for r in recs]
    for k in range(0, len(recs), 6000):
        ctx.judge('TraceVerify', 'TraceVerify.cfg', recs[k:k + 6000], metas[k:k + 6000],
                  {'driver': 'one_tamper'}, sig=_sig_verify)
    ctx.extra['tamper_scenarios'] = n
    ctx.extra['tamper_by_kind'] = {}
    for m in metas:
        key = '%s depth=%d j=%d k=%d' % (m['kind'], m['depth'], m['j'], m['k'])
        ctx.extra['tamper_by_kind'][key] = ctx.extra['tamper_by_kind'].get(key, 0) + 1
    for r, m in list(zip(recs, metas))[:2]:
        ctx.sample({'direction': 'code->spec', 'attack': m, 'ev': r['ev']})
    ctx.assumptions += ['attacker recomputation is done by the harness writer, not gemato',
                        'lookups judged against AcceptedUp (chain-accepted Manifests of ancestors)']
    return ctx.finish(rule=RULE_VERIFY + ' C02 adds chains of depth 1..5 (all compression formats, '
                      'second Manifest per directory) attacked by change/add/remove/DIST-edit with '
                      'recomputation of levels j..k, observed through the five APIs.')


def c07(ctx):
    run_verify_family(ctx, (1000, 250), (12000, 6000), want=('keep', 'clik', 'lib'))
    run_api_growth(ctx, 2000 if ctx.tier == 'thorough' else 80)
    ctx.assumptions += ['handler policy recorded per invocation; order of reports not judged']
    return ctx.finish(rule=RULE_VERIFY + ' C07 judges keep-going calls: bag of reported paths '
                      'against Offending, result against handler returns.')


def _sig_framing(r):
    return hash((tuple(r['in']), r['verify'], r['obs']['kind']))


def c04(ctx):
    from . import drv_framing as d, gpgenv
    rng = random.Random(ctx.seed)
    thorough = ctx.tier == 'thorough'
    # 1. design level: the loader's state machine against the declarative reference, all sequences
    ctx.mc('Framing', 'MC_Framing_6.cfg' if thorough else 'MC_Framing_5.cfg', timeout=3000)
    # the model of the historical behaviour must exhibit the accepted-misplaced-armor defect (F15)
    ctx.mc('Framing', 'MC_Framing_5_F15.cfg', expect_violation='Conforms', coverage=False)
    ctx.mc('Framing', 'MC_Framing_F54.cfg', expect_violation='Conforms', coverage=False)
    # 2. direction 1: every sequence up to the bound, concretised, through the real loader
    full = 5 if thorough else 4
    seqs = list(d.all_sequences(full))
    extra_len = [6, 7] if thorough else [5, 6]
    nextra = 60000 if thorough else 4000
    for n in extra_len:
        for _ in range(nextra):
            seqs.append([rng.choice(d.CLASSES) for _ in range(n)])
    # plus biased sequences around the valid shape (random ones are almost never well-formed)
    for _ in range(nextra):
        body = [rng.choice(['EV', 'DE', 'BL', 'DB', 'EV', 'DA', 'JK']) for _ in range(rng.randrange(0, 4))]
        sq = ['BL'] * rng.randrange(0, 2) + ['BS'] + ['HT'] * rng.randrange(0, 3) + ['BL'] + body \
            + ['BG'] + [rng.choice(['HT', 'BL', 'EV', 'DE', 'JK']) for _ in range(rng.randrange(0, 3))] + ['EN'] \
            + ['BL'] * rng.randrange(0, 2)
        if rng.random() < 0.6:
            k = rng.randrange(len(sq))
            how = rng.random()
            if how < 0.4:
                sq[k] = rng.choice(d.CLASSES)
            elif how < 0.7:
                sq.insert(k, rng.choice(d.CLASSES))
            else:
                sq.pop(k)
        seqs.append(sq)
    chunks = [(seqs[k:k + 2000], ctx.seed * 1000003 + k) for k in range(0, len(seqs), 2000)]
    out = core.pool_map(d.seq_records, chunks, chunksize=1)
    recs = [r for o in out for r in o]
    texts = [{'text': r.pop('text')} for r in recs]
    for k in range(0, len(recs), 150000):
        ctx.judge('TraceFraming', 'TraceFraming.cfg', recs[k:k + 150000], texts[k:k + 150000],
                  {'driver': 'seq_records', 'module': 'TraceFraming'}, sig=_sig_framing)
    ctx.extra['sequences_exhaustive_up_to_length'] = full
    ctx.extra['sequences_loaded'] = len(seqs)
    ctx.sample({'direction': 'spec->code', 'classes': recs[len(recs) // 2]['in'],
                'text': texts[len(recs) // 2]['text'], 'obs': recs[len(recs) // 2]['obs']})
    # 3. direction 2: genuinely signed Manifests, mutated; gpg itself is the oracle for the
    #    authenticated cleartext
    if gpgenv.have_gpg():
        home, items = d.make_signed_corpus(ctx.seed, 12, 20000 if thorough else 1200)
        try:
            chunks = [(items[k:k + 25], home.path) for k in range(0, len(items), 25)]
            out = core.pool_map(d.signed_records, chunks, chunksize=1)
        finally:
            home.close()
        recs = [r for o in out for r in o]
        metas = [{'text': r.pop('text'), 'mutation': r.pop('mut')} for r in recs]
        ctx.judge('TraceFraming', 'TraceFraming.cfg', recs, metas,
                  {'driver': 'signed_records', 'module': 'TraceFraming'}, sig=_sig_framing)
        kinds = {}
        for r in recs:
            k = '%s/gpg_good=%s' % (r['obs']['kind'], r['auth']['good'])
            kinds[k] = kinds.get(k, 0) + 1
        ctx.extra['gpg_signed_mutations'] = len(recs)
        ctx.extra['gpg_outcomes'] = kinds
        acc = [j for j, r in enumerate(recs) if r['obs']['kind'] == 'signed' and metas[j]['mutation'] != 'base']
        if acc:
            ctx.sample({'direction': 'code->spec', 'mutation': metas[acc[0]]['mutation'],
                        'classes': recs[acc[0]]['in'], 'obs': recs[acc[0]]['obs'], 'auth': recs[acc[0]]['auth']})
    else:
        ctx.skipped.append('gpg not available: direction 2 (signed mutations) skipped')
    ctx.assumptions += ['line classification of concrete texts (harness) is the abstraction function',
                        'gpg 2.2 --decrypt output is the authenticated cleartext',
                        'END PGP SIGNATURE without final newline is a lenient zone']
    return ctx.finish(rule='spec->code: ALL line-class sequences up to the stated length (the space Framing.tla '
                      'explores) plus sampled longer and near-valid ones, each concretised with random variants '
                      'per class and loaded by the real ManifestFile.load with and without verification '
                      '(one parser object reused); code->spec: Manifests clear-signed by real gpg and mutated '
                      'textually, loaded through SystemGPGEnvironment, compared with gpg --decrypt. '
                      'distinct = distinct (class sequence, mode, outcome).')


def _c09_records(ctx, thorough):
    from . import drv_entry as d
    cases = list(d.all_cases(3))
    reps = 6 if thorough else 2
    chunks = [(cases[k:k + 400], ctx.seed * 7919 + k, reps) for k in range(0, len(cases), 400)]
    out = core.pool_map(d.grammar_records, chunks, chunksize=1)
    small = [c for c in cases if len(c[1]) <= 2]
    out += core.pool_map(d.cycling_records, [(small[k:k + 100], ctx.seed + k) for k in range(0, len(small), 100)],
                         chunksize=1)
    if thorough:
        rng = random.Random(ctx.seed)
        c4 = [c for c in d.all_cases(4) if len(c[1]) == 4]
        c4 = rng.sample(c4, 40000)
        out += core.pool_map(d.grammar_records, [(c4[k:k + 400], ctx.seed + k, 1)
                                                 for k in range(0, len(c4), 400)], chunksize=1)
    nv = 20000 if thorough else 1500
    out += core.pool_map(d.near_valid_records, [(ctx.seed * 100 + k, nv) for k in range(16)], chunksize=1)
    recs = [r for o in out for r in o]
    return recs, len(cases)


def c09(ctx):
    from . import drv_codec as dc
    thorough = ctx.tier == 'thorough'
    ctx.mc('EntryLine', 'MC_EntryLine.cfg' if thorough else 'MC_EntryLine_quick.cfg', timeout=3000)
    ctx.mc('EntryLine', 'MC_EntryLine_F4.cfg', expect_violation='Rejects', coverage=False)
    ctx.mc('EntryLine', 'MC_EntryLine_F5.cfg', expect_violation='Total', coverage=False)
    recs, ncases = _c09_records(ctx, thorough)
    metas = [{'text': r.pop('text'), 'exc': r.pop('exc')} for r in recs]
    for k in range(0, len(recs), 120000):
        ctx.judge('TraceEntryLine', 'TraceEntryLine.cfg', recs[k:k + 120000], metas[k:k + 120000],
                  {'driver': 'grammar/near-valid', 'module': 'TraceEntryLine'},
                  sig=lambda r: hash((json_key(r['lines']), r['obs']['kind'])))
    ctx.extra['grammar_cases'] = ncases
    ctx.sample({'text': metas[7]['text'], 'lines': recs[7]['lines'], 'obs': recs[7]['obs']})
    # every escape form over its full value range
    step = 1 if thorough else 7
    jobs = [('x', 0, 256, 1)] + [('u', a, min(a + 8192, 65536), 1) for a in range(0, 65536, 8192)]
    jobs += [('U', a, min(a + 65536, 0x110000), step) for a in range(0, 0x110000, 65536)]
    jobs += [('U', 0x10FFF0, 0x110010, 1), ('U', 0xD7F0, 0xE010, 1)]
    jobs += [('U', 0x110000, 0xFFFFFFFF, 9999991 if not thorough else 99991),
             ('U', 0x7FFFFFF0, 0x80000010, 1), ('U', 0xFFFFFFF0, 0x100000000, 1)]
    erecs = [r for o in core.pool_map(dc.escape_records, jobs, chunksize=1) for r in o]
    ctx.judge('TraceCodec', 'TraceCodec.cfg', erecs, None, {'module': 'TraceCodec'},
              sig=lambda r: hash((r['form'], r['lo'], r['hi'])))
    ctx.extra['escape_values_tried'] = sum(r['n'] for r in erecs)
    ctx.assumptions += ['field classification (harness) is the abstraction function',
                        'lenient numeric / timestamp spellings and surrogate escapes: either outcome']
    return ctx.finish(rule='EntryLine.tla decision table (tag x up to 3-4 fields x 11 field shapes) checked by TLC; '
                      'every case concretised (several concrete strings per shape, separators, final newline) and '
                      'loaded by the real parser; one-character edits of valid lines; escape forms over the full '
                      'value range.  distinct = distinct (classified line structure, outcome).')


def json_key(x):
    import json
    return json.dumps(x, sort_keys=True)


def c08(ctx):
    from . import drv_codec as dc
    thorough = ctx.tier == 'thorough'
    res = ctx.mc('PathCodec', 'MC_PathCodec_fixed3.cfg' if thorough else 'MC_PathCodec_fixed.cfg', timeout=3000)
    table = tlc.parse_json_prints(res['out'])[0]
    ctx.mc('PathCodec', 'MC_PathCodec_F12.cfg', expect_violation='Storable', coverage=False)
    # every code point, four contexts, split big intervals for parallelism
    jobs = []
    for iv in table:
        lo = iv['lo']
        while lo <= iv['hi']:
            hi = min(iv['hi'], lo + 49999)
            for cx in ('alone', 'hex', 'digits', 'xesc', 'tail', 'head'):
                jobs.append(({'lo': lo, 'hi': hi, 'c': iv['c']}, cx))
            lo = hi + 1
    recs = core.pool_map(dc.interval_records, jobs, chunksize=1)
    ctx.extra['code_points_tried'] = sum(r['hi'] - r['lo'] + 1 for r in recs)
    ctx.sample({'interval': recs[20]})
    n = 3000 if thorough else 150
    rt = [r for o in core.pool_map(dc.roundtrip_records, [(ctx.seed * 64 + k, n, True) for k in range(16)],
                                   chunksize=1) for r in o]
    ctx.sample({'roundtrip': {'before': rt[3]['before'][:2], 'via': rt[3]['via']}})
    # canonical fixed point on every text the C09 generators produce that the parser accepts
    c9, _ = _c09_records(ctx, False)
    texts = [r['text'] for r in c9 if r['obs']['kind'] == 'entry']
    fp = [r for o in core.pool_map(dc.fixedpoint_records, [texts[k:k + 500] for k in range(0, len(texts), 500)],
                                   chunksize=1) for r in o]
    allrecs = recs + rt + fp
    metas = [{'text': r.pop('text', None)} for r in allrecs]
    ctx.judge('TraceCodec', 'TraceCodec.cfg', allrecs, metas, {'module': 'TraceCodec'},
              sig=lambda r: hash(json_key({k: v for k, v in r.items() if k != 'id'})))
    ctx.extra['roundtrips'] = len(rt)
    ctx.extra['fixedpoint_texts'] = len(fp)
    ctx.assumptions += ['the interval table is the specification; Python str.isspace()/split() is the splitter',
                        'absolute paths ("/" alone) are outside the writer domain (rejected by C09)']
    return ctx.finish(rule='PathCodec.tla (table partition, Enc/Dec round trip, separator-freeness, storability) by TLC; '
                      'the real codec on EVERY code point 0..0x10FFFF alone and between hex-like neighbours against the '
                      'exported table; random entry lists (8 tags, hostile alphabet incl. surrogates, sizes to 2**64, '
                      '0..10 checksums) through StringIO and real plain/gz/bz2/lzma/xz files; canonical fixed point of '
                      'accepted texts.  distinct = distinct records.')


def _sig_update(r):
    if r.get('kind') != 'step':
        return hash(json_key(r['variants']))
    s = r['s0']
    return hash((tuple(sorted((len(n['p']), n['k'], n['size']) for n in s['nodes'])),
                 tuple(tuple((e['tag'], len(e['p']), len(e['ck'])) for e in m['entries']) for m in s['mfs']),
                 json_key(r['ev']), len(r['written'])))


def run_update_family(ctx, n_quick, n_thorough):
    """Shared body of C03 / C10 / C12 / C13: seeded histories with every kind of prior Manifest
    state, judged by TraceUpdate.tla."""
    from . import drv_update as d
    thorough = ctx.tier == 'thorough'
    n = n_thorough if thorough else n_quick
    rng = random.Random(ctx.seed)
    # design level: the update algorithm (Update.tla) against UpdateRef for every prior Manifest state of
    # the bounded family; the historical switches must exhibit their defects
    ctx.mc('Update', 'MC_Update.cfg', timeout=3000)
    ctx.mc('Update', 'MC_Update_F14.cfg', expect_violation='C03_ExactCover', coverage=False)
    # three levels, two rounds, renames: the chain of MANIFEST entries (Chain.tla)
    ctx.mc('Chain', 'MC_Chain.cfg', timeout=3000)
    if thorough or ctx.pid in ('C03', 'C12'):
        ctx.mc('Chain', 'MC_Chain_F37.cfg', expect_violation='C03_ChainExact', coverage=False)
        ctx.mc('Chain', 'MC_Chain_F50.cfg', expect_violation='C03_Loadable', coverage=False)
    if thorough:
        ctx.mc('Update', 'MC_Update_F14fix.cfg', timeout=3000)
        ctx.mc('Update', 'MC_Update_F9.cfg', expect_violation='C03_ExactCover_ModuloF14', coverage=False)
        ctx.mc('Update', 'MC_Update_F8.cfg', expect_violation='C18_NoInternal', coverage=False)
        ctx.mc('Update', 'MC_Update_F18.cfg', expect_violation='C03_ExactCover_ModuloF14', coverage=False)
        ctx.mc('Update', 'MC_Update_F23.cfg', expect_violation='C18_NoInternal', coverage=False)
        ctx.mc('Update', 'MC_Update_F20.cfg', expect_violation='C18_NoInternal', coverage=False)
        ctx.mc('Update', 'MC_Update_F34.cfg', expect_violation='C10_ForeignKept', coverage=False)
        ctx.mc('Update', 'MC_Update_F36.cfg', expect_violation='C18_NoInternal', coverage=False)
    # spec -> code: exported behaviours replayed into the real loader
    behs = _export(ctx, 'Update', 'MC_Update.cfg', [], sample=(6000 if thorough else 700), rng=rng)
    out = core.pool_map(d.replay_update, list(enumerate(behs)))
    recs = [r for o in out for r in o]
    # ... and the behaviours of Chain.tla (three levels, two rounds)
    if thorough or ctx.pid in ('C03', 'C12'):
        cbehs = _export(ctx, 'Chain', 'MC_Chain.cfg', [], sample=(4000 if thorough else 300), rng=rng)
        out = core.pool_map(d.chain_replay, list(enumerate(cbehs)))
        recs += [r for o in out for r in o]
        ctx.extra['replayed_chain_behaviours'] = len(cbehs)
    nd = 0
    for r in recs:
        for x in r.pop('drift', []):
            nd += 1
            ctx.drift[x] = ctx.drift.get(x, 0) + 1
            if nd <= 5:
                print('DRIFT: %s %s' % (ctx.pid, x))
    ctx.extra['replayed_behaviours'] = len(behs)
    for prof, share in (('default', 0.7), ('ebuild', 0.15), ('old-ebuild', 0.15)):
        k = int(n * share)
        out = core.pool_map(d.one_update, [(ctx.seed, i, {'profile': prof}) for i in range(k)])
        recs += [r for o in out for r in o]
    g = max(n // 4, 40)
    out = core.pool_map(d.lookalike_update, [(ctx.seed, i, {}) for i in range(g)])
    out += core.pool_map(d.twin_update, [(ctx.seed, i, {}) for i in range(g)])
    out += core.pool_map(d.self_above, [(ctx.seed, i, {}) for i in range(max(g // 2, 30))])
    out += core.pool_map(d.watermark_window, [(ctx.seed, i, {}) for i in range(max(g // 3, 20))])
    out += core.pool_map(d.canon_group, [(ctx.seed, i, {}) for i in range(g)])
    out += core.pool_map(d.transparent_group, [(ctx.seed, i, {}) for i in range(g)])
    recs += [r for o in out for r in o]
    metas = [r.pop('meta') for r in recs]
    for k in range(0, len(recs), 4000):
        ctx.judge('TraceUpdate', 'TraceUpdate.cfg', recs[k:k + 4000], metas[k:k + 4000],
                  {'driver': 'one_update/canon_group/transparent_group', 'module': 'TraceUpdate'},
                  sig=_sig_update)
    ends = {}
    for r in recs:
        if r.get('kind') == 'step':
            key = '%s/%s/%s' % (r['ev']['end'], r['ev']['exc'], r['ev']['stage'])
            ends[key] = ends.get(key, 0) + 1
    ctx.extra['update_outcomes'] = ends
    ctx.extra['histories'] = len([r for r in recs if r.get('kind') == 'step'])
    ctx.extra['groups'] = len([r for r in recs if r.get('kind') != 'step'])
    for r, m in list(zip(recs, metas))[:2]:
        ctx.sample({'direction': 'code->spec', 'meta': m, 'ev': r.get('ev'), 'written': r.get('written')})
    ctx.assumptions += ['raw byte/mtime_ns snapshots of the tree are the observation of writes',
                        'update results judged only when update+save completed (C18 judges the rest)']


RULE_UPDATE = ('code->spec: seeded trees with prior Manifest states (stale, duplicates with equal/sub/superset hash '
               'sets, parent+child entries, unregistered valid/invalid sub-Manifests, two Manifests per directory '
               'incl. one referencing the other, all compression formats), 0-3 edits, whole-tree and sub-directory '
               'updates through library and CLI with random hashes/sort/force/watermark/format/profile, followed by '
               'fresh verification and a second run; walk-order / entry-order / compression-assignment variant groups. '
               'Judged by TraceUpdate.tla (UpdateRef!ExactCover, preservation, idempotence, watermark rule).')


def c03(ctx):
    run_update_family(ctx, 500, 12000)
    return ctx.finish(rule=RULE_UPDATE)


def run_api_growth(ctx, n):
    """Specification growth (TraceApi.tla): single-path update, find/set_timestamp, `gemato hash`, multi-path
    verify.  Clauses named C10.x / C07.x count for those properties; X0n clauses are extension findings: they
    are reported (EXT-FINDING lines, evidence) but are not violations of a listed property."""
    from . import drv_api as d
    out = core.pool_map(d.one_tree, [(ctx.seed, i, {}) for i in range(n)])
    recs = [r for o in out for r in o]
    metas = [r.pop('meta') for r in recs]
    ctx.judge('TraceApi', 'TraceApi.cfg', recs, metas, {'module': 'TraceApi'},
              sig=lambda r: hash(json_key({k: v for k, v in r.items() if k not in ('id', 's0', 's1')})))
    ext = dict((k, v) for k, v in ctx.other_props.items() if k.startswith('X'))
    ctx.extra['extension_records'] = len(recs)
    ctx.extra['extension_clauses_failed'] = ext


def c10(ctx):
    run_update_family(ctx, 500, 12000)
    run_api_growth(ctx, 2000 if ctx.tier == 'thorough' else 150)
    return ctx.finish(rule=RULE_UPDATE + ' Plus TraceApi.tla: loader.update_entry_for_path + save judged with the same '
                      'preservation clauses (the "directory being updated" is the path).')


def c12(ctx):
    run_update_family(ctx, 400, 10000)
    return ctx.finish(rule=RULE_UPDATE)


def c13(ctx):
    run_update_family(ctx, 400, 10000)
    return ctx.finish(rule=RULE_UPDATE)


def c11(ctx):
    from . import drv_incr as d
    thorough = ctx.tier == 'thorough'
    ctx.mc('MC_Incremental', 'MC_Incremental.cfg' if thorough else 'MC_Incremental_quick.cfg', timeout=3000)
    ctx.mc('MC_Incremental', 'MC_Incremental_F2.cfg', expect_violation='IncEqualsFull', coverage=False)
    # ... and the short-cut that ignored the entry's hash set (F27)
    ctx.mc('MC_Incremental', 'MC_Incremental_F27.cfg', expect_violation='IncEqualsFull', coverage=False)
    ctx.mc('MC_Incremental', 'MC_Incremental_F52.cfg', expect_violation='IncEqualsFull', coverage=False)
    n = 12000 if thorough else 700
    out = core.pool_map(d.one_history, [(ctx.seed, i, {}) for i in range(n)])
    recs = [r for o in out for r in o]
    metas = [r.pop('meta') for r in recs]
    ctx.judge('TraceIncremental', 'TraceIncremental.cfg', recs, metas,
              {'driver': 'one_history', 'module': 'TraceIncremental'},
              sig=lambda r: hash((r['tz'], json_key([[f[k] for k in ('modified', 'sizediff', 'added', 'deleted', 'same')]
                                                      + [f['dmt'] > 0, f['dmt'] == 0] for f in r['files']]))))
    tzs = {}
    for m in metas:
        tzs[m.get('tz', '?')] = tzs.get(m.get('tz', '?'), 0) + 1
    ctx.extra['rounds_by_tz'] = tzs
    ctx.extra['rounds_with_mid_update_modification'] = sum(1 for m in metas if m.get('mid'))
    ctx.sample({'direction': 'code->spec', 'meta': metas[1], 'files': recs[1]['files'][:3]})
    ctx.assumptions += ['virtual clock: gemato.cli.datetime replaced by a shim whose utcnow() is scripted',
                        'TZ set with POSIX strings (no tzdata): UTC, XXX-5/XXX-11 (east), XXX5/XXX9 (west)',
                        'mtime == TIMESTAMP exactly is a lenient zone']
    return ctx.finish(rule='Incremental.tla (two replicas, clock in half seconds, edits with mtimes older/equal/newer '
                      'than TIMESTAMP, modification interleaved with per-file hashing, three zone offsets) checked '
                      'by TLC; real `gemato update --incremental` vs full `gemato update` on two copies over 1-3 '
                      'rounds of change/size-change/touch/add/delete with mtimes set relative to the previous '
                      'TIMESTAMP (incl. sub-second), a modification injected after the k-th per-file step, five TZ '
                      'settings; judged per file by TraceIncremental.tla.')


def c05(ctx):
    from . import drv_gpg as d, gpgenv
    thorough = ctx.tier == 'thorough'
    rng = random.Random(ctx.seed)
    ctx.mc('GpgStatus', 'MC_GpgStatus_5.cfg' if thorough else 'MC_GpgStatus.cfg', timeout=3000)
    ctx.mc('GpgStatus', 'MC_GpgStatus_F3.cfg', expect_violation='Monotone', coverage=False)
    # scripted backend: all sequences up to length 3 (quick) / 4 (thorough), sampled longer ones
    seqs = list(d.all_status_sequences(4 if thorough else 3))
    for n in (5, 6, 7):
        for _ in range(30000 if thorough else 3000):
            core_words = ['GOODSIG', 'VALIDSIG', rng.choice(d.VOCAB[13:])]
            sq = core_words + [rng.choice(d.VOCAB) for _ in range(n - 3)]
            rng.shuffle(sq)
            seqs.append((sq, rng.choice([0, 0, 0, 1, 2, 255, -15, -9, -11])))
    chunks = [(seqs[k:k + 1500], ctx.seed * 31 + k) for k in range(0, len(seqs), 1500)]
    recs = [r for o in core.pool_map(d.scripted_records, chunks, chunksize=1) for r in o]
    ctx.extra['scripted_sequences'] = len(recs)
    ctx.sample({'direction': 'spec->code', 'record': recs[4000]})
    if gpgenv.have_gpg():
        S = d.build_signer()
        try:
            real = d.real_state_records(S, ctx.seed)
            ctx.sample({'direction': 'code->spec (real gpg)', 'record': real[3]})
            text = S['signed']['valid']
            pos = list(range(len(text))) if thorough else rng.sample(range(len(text)), 160)
            real += [r for o in core.pool_map(d.tamper_records,
                                              [(text, S['pub']['valid'], S['keys']['valid'], pos[k::16]) for k in range(16)],
                                              chunksize=1) for r in o]
            real += d.cli_isolation_records(S, ctx.seed)
            real += d.system_trust_records(S, ctx.seed)
        finally:
            S['home'].close()
        ctx.extra['real_gpg_records'] = len(real)
        recs += real
    else:
        ctx.skipped.append('gpg not available: real-gpg parts skipped')
    # key refresh (-K without -R): Refresh.tla, its defect configurations, and its behaviours through the
    # real refresh_keys() with real gpg, substituted WKD answers and a loopback key server
    ctx.mc('MC_Refresh', 'MC_Refresh.cfg', timeout=3000)
    for cfg, inv in (('MC_Refresh_trust.cfg', 'C05_OnlyFileKeysTrusted'), ('MC_Refresh_nodelete.cfg', 'X07_NoForeignKeyLeft'),
                     ('MC_Refresh_norequire.cfg', 'X08_OkMeansEveryKeyRefreshed'), ('MC_Refresh_X06.cfg', 'X06_FileKeysKept')):
        ctx.mc('MC_Refresh', cfg, expect_violation=inv, coverage=False)
    if gpgenv.have_gpg():
        from . import drv_refresh as dr
        allb = _export(ctx, 'MC_Refresh', 'MC_Refresh.cfg', [])
        nb = 6000 if thorough else 480
        # a fifth of the sample from the corner where WKD cannot refresh every key (a key without mail address)
        corner = [b for b in allb if not b['mail']['B'] and b['ring0']['B'] != 'absent' and b['wkd'] and b['req']]
        behs = rng.sample(corner, min(len(corner), nb // 5)) + rng.sample(allb, min(len(allb), nb - nb // 5))
        mat = dr.build_material()
        for k, b in enumerate(behs):
            b['cli'] = (k % 3 == 0)
        rrecs = core.pool_map(dr.run_scenario, [(b, mat, ctx.seed) for b in behs], chunksize=4)
        ctx.extra['refresh_scenarios'] = len(rrecs)
        ctx.sample({'direction': 'spec->code->spec (key refresh)', 'record': rrecs[7]})
        ctx.judge('TraceRefresh', 'TraceRefresh.cfg', rrecs, None, {'module': 'TraceRefresh'},
                  sig=lambda r: hash(json_key({a: b for a, b in r.items() if a not in ('id',)})),
                  reject_drift='RefreshTraceRejected')
        ctx.extra['refresh_traces_rejected'] = len(getattr(ctx, 'last_rejected', []))
    for k in range(0, len(recs), 200000):
        ctx.judge('TraceGpg', 'TraceGpg.cfg', recs[k:k + 200000], None, {'module': 'TraceGpg'},
                  sig=lambda r: hash(json_key({a: b for a, b in r.items() if a not in ('id', 'pos')})))
    for dname in list(ctx.drift):
        print('DRIFT: C05 %s x%d' % (dname, ctx.drift[dname]))
    ctx.assumptions += ['gpg 2.2.40 in this sandbox; the Emits environment model is specific to it (mismatch = drift, not violation)',
                        'owner-trust levels are set with --import-ownertrust in gemato\'s isolated (trust-model direct) home',
                        'subkey-without-binding states are not generated (needs packet surgery)']
    return ctx.finish(rule='GpgStatus.tla (scanner vs AcceptSig, monotonicity) for all status sequences up to length 4/5 x 3 '
                      'exit codes by TLC; the same space (exhaustive to length 3/4, sampled to 7) replayed into the real '
                      'verify_file and ManifestFile.load with subprocess.Popen substituted; real gpg: key states valid/'
                      'expired/revoked/unknown/bad x five owner-trust levels through IsolatedGPGEnvironment, single-'
                      'character tampering of a signed Manifest, `gemato verify -K -R` x -s x -P x user-keyring contents '
                      'with snapshots of the user keyring. distinct = distinct records.')


def c14(ctx):
    from . import drv_sign as d, gpgenv
    thorough = ctx.tier == 'thorough'
    rng = random.Random(ctx.seed)
    ctx.mc('Signing', 'MC_Signing.cfg')
    ctx.mc('Signing', 'MC_Signing_F11.cfg', expect_violation='SignedIffWanted', coverage=False)
    ctx.mc('Signing', 'MC_Signing_F51.cfg', expect_violation='SignedOverEntries', coverage=False)
    if not gpgenv.have_gpg():
        ctx.skipped.append('gpg not available: real signing runs skipped')
        return ctx.finish(rule='model only')
    homes = d.build_homes()
    try:
        cases = d.all_cases(rng, thorough)
        hp = {'H': homes['H'].path, 'Hpub': homes['Hpub'].path, 'Hlock': homes['Hlock'].path,
              'a': homes['a'], 'b': homes['b'], 'la': homes['la'], 'lb': homes['lb']}
        # (thorough: the whole matrix three times, with other edits / names / line lengths each time)
        jobs = [(c, hp, ctx.seed * 10 + k) for k in range(3 if thorough else 1) for c in
                (cases if k == 0 else d.all_cases(random.Random(ctx.seed * 10 + k), True))]
        out = core.pool_map(d.one_case, jobs, chunksize=1)
    finally:
        homes['H'].close()
        homes['Hpub'].close()
        homes['Hlock'].close()
    recs = [r for o in out for r in o]
    metas = [r.pop('meta') for r in recs]
    ctx.judge('TraceSigning', 'TraceSigning.cfg', recs, metas, {'module': 'TraceSigning'},
              sig=lambda r: hash(json_key({k: v for k, v in r.items() if k != 'id'})))
    ctx.extra['combinations'] = len(cases)
    ctx.sample({'case': metas[5], 'end': recs[5]['end'], 'top': recs[5]['top']})
    ctx.assumptions += ['real gpg 2.2 with ed25519 keys generated offline; "unusable key" = public-key-only home or unknown key id',
                        'the state of the file on disk after a signing failure is not judged']
    return ctx.finish(rule='Signing.tla (sign decision for top-level / renamed top-level / sub-Manifests, signer failure) by TLC; '
                      'real loader + real gpg for the full product sign option x originally signed x key id (default / explicit / '
                      'missing) x usable key x top-level renamed by decompression x sub-Manifest format x hostile names; written '
                      'files classified with the C04 line classifier and judged with FramingRef, re-verified in a separate '
                      'verifier home, authenticated cleartext compared with the in-memory entries.')


def c15(ctx):
    from . import drv_findtop as d
    thorough = ctx.tier == 'thorough'
    rng = random.Random(ctx.seed)
    ctx.mc('FindTop', 'MC_FindTop_4.cfg' if thorough else 'MC_FindTop.cfg', timeout=3000)
    scns = list(d.all_chains(3 if thorough else 2))
    for n in (3, 4, 5, 6):
        scns += [d.random_chain(rng, n) for _ in range(20000 if thorough else 1500)]
    chunks = [(scns[k:k + 300], ctx.seed * 17 + k) for k in range(0, len(scns), 300)]
    recs = [r for o in core.pool_map(d.run_chains, chunks, chunksize=1) for r in o]
    for k in range(0, len(recs), 150000):
        ctx.judge('TraceFindTop', 'TraceFindTop.cfg', recs[k:k + 150000], None, {'module': 'TraceFindTop'},
                  sig=lambda r: hash(json_key({a: b for a, b in r.items() if a not in ('id', 'names')})))
    ctx.extra['chains'] = len(recs)
    ctx.extra['exhaustive_depth'] = 3 if thorough else 2
    ctx.sample(recs[len(recs) // 3])
    ctx.assumptions += ['device boundaries are simulated by rewriting st_dev in the os.stat/os.fstat results seen by '
                        'gemato.find_top_level (a real second file system per scenario is not practical)',
                        'a non-IGNORE entry equal to the start path preceding the IGNORE line is not generated (lenient)']
    return ctx.finish(rule='FindTop.tla: upward walk vs the declarative Outermost for all chains of 3 (quick) / 4 (thorough) levels '
                      'x Manifest none/plain/compressed x IGNORE none/path/ancestor/sibling/look-alike x device cut x start x '
                      'allow_compressed x allow_xdev by TLC; the same chains (exhaustive to depth 2/3, sampled to depth 6) built '
                      'as real directories with hostile names and run through the real find_top_level_manifest.')


def c16(ctx):
    from . import drv_walk as d
    thorough = ctx.tier == 'thorough'
    ctx.mc('Walker', 'MC_Walker.cfg', timeout=3000)
    # the start directory's identity missing from the ancestor lists (F30) must be exhibited
    ctx.mc('Walker', 'MC_Walker_F30.cfg', expect_violation='Correct', coverage=False)
    n = 50000 if thorough else 700
    out = core.pool_map(d.one_graph, [(ctx.seed, i, {}) for i in range(n)])
    recs = [r for o in out for r in o]
    metas = [r.pop('meta') for r in recs]
    ctx.judge('TraceWalk', 'TraceWalk.cfg', recs, metas, {'module': 'TraceWalk'},
              sig=lambda r: hash(json_key({a: b for a, b in r.items() if a not in ('id', 'exc')})))
    by = {}
    for r in recs:
        k = '%s/%s' % (r['op'], r['obs'])
        by[k] = by.get(k, 0) + 1
    ctx.extra['outcomes'] = by
    ctx.extra['graphs'] = n
    if not d.have_second_fs():
        ctx.skipped.append('/dev/shm is not a second file system here: cross-device part skipped')
    ctx.sample({'graph': {k: recs[0][k] for k in ('dirs', 'edges', 'foreign', 'onefs', 'op', 'obs')}, 'links': metas[0]['links']})
    ctx.assumptions += ['second file system = /dev/shm (tmpfs) reached through symlinks from a tree under /tmp',
                        'an IGNOREd edge is only generated where its logical path is unique',
                        'verification runs with a non-raising handler so that strays seen through links do not pre-empt the walk']
    return ctx.finish(rule='Walker.tla: the shared directory walker over ALL symlink graphs on 4 directories (<=3 links, <=1 IGNOREd '
                      'edge, <=1 foreign directory, one-file-system on/off): termination as a bound on the ancestor chain and '
                      'outcome = WalkRef!Expected, by TLC; random graphs of 2-6 directories plus up to 2 on a real second file '
                      'system with self/parent/ancestor/sibling/mutual/chain links run through assert_directory_verifies, '
                      'update_entries_for_directory and load_unregistered_manifests under a 20 s watchdog.')


def c06(ctx):
    from . import drv_fault as d
    thorough = ctx.tier == 'thorough'
    ctx.mc('Faults', 'MC_Faults.cfg')
    ctx.mc('Faults', 'MC_Faults_eloop.cfg', expect_violation='NeverAbsent', coverage=False)
    n = 1000 if thorough else 48
    opt = {'all_errnos': thorough, 'all_calls': thorough}
    out = core.pool_map(d.one_tree, [(ctx.seed, i, opt) for i in range(n)], chunksize=1)
    recs = [r for o in out for r in o]
    metas = [r.pop('meta') for r in recs]
    if any(not r['transparent'] for r in recs):
        raise tlc.MachineryError('interposer is not transparent (clean run differs with the layer installed)')
    for k in range(0, len(recs), 100000):
        ctx.judge('TraceFault', 'TraceFault.cfg', recs[k:k + 100000], metas[k:k + 100000], {'module': 'TraceFault'},
                  sig=lambda r: hash((r['op'], r['func'], r['errno'], r['obs'], r['clean'], r['k'] * 1000 + r['ncalls'])))
    by = {}
    for r in recs:
        key = '%s %s -> %s' % (r['op'], r['func'], r['obs'].split(':')[0])
        by[key] = by.get(key, 0) + 1
    ctx.extra['by_call'] = by
    ctx.extra['trees'] = n
    ctx.extra['not_fired'] = sum(1 for r in recs if not r['fired'])
    ctx.sample({'record': {k: recs[10][k] for k in ('op', 'func', 'errno', 'k', 'ncalls', 'clean', 'obs')}, 'meta': metas[10]})
    ctx.assumptions += ['faults are injected at the Python-visible call boundary (os.open/stat/fstat/scandir(+first iteration)/'
                        'builtins.open/first read of each opened object); errors inside C-level DirEntry methods are out of reach',
                        'ENOENT and the documented ENXIO/EOPNOTSUPP cases are not injected']
    return ctx.finish(level='fault_enumeration' if False else 'model_checking',
                      rule='Faults.tla: the error-handling table (role x call x errno) by TLC; real code: per generated tree '
                      '(consistent / with an unlisted file / with an altered file) the clean call sequence of verify and of the '
                      'scan phase of update is recorded, then re-run once per (call index, errno) with that call raising; '
                      'judged by TraceFault.tla (never success; update wrote nothing).')


def c17(ctx):
    from . import drv_hash as d
    thorough = ctx.tier == 'thorough'
    rng = random.Random(ctx.seed)
    ctx.mc('HashFile', 'MC_HashFile.cfg')
    ctx.mc('HashFile', 'MC_HashFile_capped.cfg', expect_violation='Whole', coverage=False)
    # unbounded: the counting argument as an inductive invariant, discharged by Apalache for every content
    # length, hint, buffer and slurp size (and refuted for the capped-slurp mistake)
    apa = [('init', tlc.run_apalache('apalache/HashFileInd.tla', 'ConstInit', 'Init', 'IndInv', 0), 'ok'),
           ('step', tlc.run_apalache('apalache/HashFileInd.tla', 'ConstInit', 'IndInit', 'IndInv', 1), 'ok'),
           ('implies SizeOK', tlc.run_apalache('apalache/HashFileInd.tla', 'ConstInit', 'IndInit', 'SizeOK', 0), 'ok'),
           ('capped slurp', tlc.run_apalache('apalache/HashFileInd.tla', 'ConstInitCapped', 'IndInit', 'IndInv', 1), 'violation')]
    if any(r == 'unavailable' for _, r, _ in apa):
        ctx.skipped.append('apalache-mc not on PATH: inductive invariant of HashFileInd.tla not checked')
    else:
        for name, got, want in apa:
            if got != want:
                raise tlc.MachineryError('Apalache HashFileInd %s: expected %s, got %s' % (name, want, got))
        ctx.extra['apalache'] = {'spec': 'specs/apalache/HashFileInd.tla', 'obligations': [[n, g] for n, g, _ in apa]}
    lens = list(range(0, 301)) + [65534, 65535, 65536, 65537, 65538, 131071, 131072, 131073,
                                  1048574, 1048575, 1048576, 1048577, 1048578]
    lens += [rng.randrange(1100000, 3500000) for _ in range(12 if thorough else 2)]
    reps = 16 if thorough else 1
    jobs = []
    for rep in range(reps):
        ll = list(lens)
        rng.shuffle(ll)
        jobs += [(ll[k::16], ctx.seed * 101 + rep * 16 + k) for k in range(16)]
    recs = [r for o in core.pool_map(d.stream_records, jobs, chunksize=1) for r in o]
    ctx.sample({'stream': {k: recs[5][k] for k in ('len', 'hint', 'style', 'names', 'nreads')}, 'reads': recs[5]['reads'][:6]})
    recs += [r for o in core.pool_map(d.path_records, [(lens[k::16], ctx.seed + k) for k in range(16)], chunksize=1) for r in o]
    names = d.name_records(ctx.seed)
    ctx.extra['name_table'] = [[r['name'], r['supported'], r['outcome'], r['reference']] for r in names]
    recs += names
    ctx.judge('TraceHash', 'TraceHash.cfg', recs, None, {'module': 'TraceHash'},
              sig=lambda r: hash(json_key({a: b for a, b in r.items() if a != 'id'})))
    ctx.assumptions += ['independent implementations: coreutils (md5sum, sha1sum, sha256sum, sha512sum, b2sum) and openssl dgst '
                        '(sha3-256, sha3-512, blake2s256, rmd160) where present, else one-shot hashlib',
                        'whether an algorithm is "the standard one" is decided by those references, not by the model',
                        'XOF names (shake_*) are lenient']
    return ctx.finish(rule='HashFile.tla: slurp-or-chunk read loop under all short-read schedules (scaled thresholds) by TLC; '
                      'real hash_file on scripted streams for every length 0..300, around 64 KiB / 128 KiB / 1 MiB (+-2) and '
                      'random longer, with hints 0 / true / smaller / larger / around 1 MiB and full / random / half / one-byte '
                      'read schedules; real files through get_file_metadata, hash_path and update_entry_for_path; the ten Manifest '
                      'hash names and every hashlib name against independent implementations; judged by TraceHash.tla.')


def c19(ctx):
    from . import drv_profile as d
    thorough = ctx.tier == 'thorough'
    ctx.mc('Profile', 'MC_Profile.cfg', timeout=3000)
    n = 6000 if thorough else 350
    out = core.pool_map(d.one_repo, [(ctx.seed, i, {'stray_files_manifest': i % 5 == 0}) for i in range(n)])
    recs = [r for o in out for r in o]
    metas = [r.pop('meta') for r in recs]
    for k in range(0, len(recs), 3000):
        ctx.judge('TraceProfile', 'TraceProfile.cfg', recs[k:k + 3000], metas[k:k + 3000], {'module': 'TraceProfile'},
                  sig=lambda r: hash((r['profile'], json_key(r['hashes']), r['wm'], json_key(sorted((x['role']) for x in r['dirs'])), r['end'])))
    byp = {}
    for r in recs:
        byp[r['profile']] = byp.get(r['profile'], 0) + 1
    ctx.extra['creates_by_profile'] = byp
    ctx.sample({'argv': metas[2]['argv'], 'roles': [[x['p'], x['role']] for x in recs[2]['dirs']][:12],
                'manifests': [m['p'] for m in recs[2]['s1']['mfs']]})
    # create, edit, update with the profile: the update family's oracle
    m2 = max(n // 3, 60)
    out = core.pool_map(d.one_repo_update, [(ctx.seed, i, {}) for i in range(m2)])
    allr = [r for o in out for r in o]
    precs = [r for r in allr if r.get('mode') == 'update']
    urecs = [r for r in allr if r.get('mode') != 'update']
    pmetas = [r.pop('meta') for r in precs]
    ctx.judge('TraceProfile', 'TraceProfile.cfg', precs, pmetas, {'module': 'TraceProfile'},
              sig=lambda r: hash((r['profile'], len(r['written']), len(r['newfiles']), r['end'])))
    umetas = [r.pop('meta') for r in urecs]
    res = {}
    sub = core.Ctx('C19', ctx.tier, ctx.seed)        # same property id: clauses of C03/C10/C12/C13 are other properties'
    verd = ctx.judge('TraceUpdate', 'TraceUpdate.cfg', urecs, umetas, {'module': 'TraceUpdate'}, sig=_sig_update)
    ctx.extra['create_edit_update_histories'] = len(urecs)
    ctx.assumptions += ['the role of every directory is known from the generator, not inferred from the code',
                        'empty categories and top-level directories that are neither categories nor standard are not judged',
                        'after edits, the update is judged by the update family\'s oracle (clauses named C03/C10/C12/C13 are '
                        'reported under other_property_clauses_seen)']
    return ctx.finish(rule='Profile.tla: placement/typing heuristics vs the role policy for every consistent directory description, '
                      'by TLC; generated ebuild repositories (0-3 categories x 1-3 packages with ebuilds, metadata.xml, nested '
                      'files/, eclass, licenses, profiles, metadata with dtd/glsa/news/xml-schema/md5-cache, ignored distfiles/'
                      'local/packages) through `gemato create -p ebuild|old-ebuild|default` with overrides of hashes / watermark / '
                      'format; projection judged by TraceProfile.tla (placement, default IGNOREs, tags, hash set, sorting, '
                      'watermark, ExactCover, plain-loader verification); then edits + `gemato update -p` judged by TraceUpdate.tla.')


def c20(ctx):
    from . import drv_gen as d
    thorough = ctx.tier == 'thorough'
    n = 8000 if thorough else 160
    out = core.pool_map(d.one_case, [(ctx.seed, i, {'big': i % 3 == 0}) for i in range(n)], chunksize=1)
    recs = [r for o in out for r in o]
    metas = [r.pop('meta') for r in recs]
    for k in range(0, len(recs), 1500):
        ctx.judge('TraceGen', 'TraceGen.cfg', recs[k:k + 1500], metas[k:k + 1500], {'module': 'TraceGen'},
                  sig=lambda r: hash((r['script'].split(':')[0], len(r['s1']['nodes']), len(r['s1']['mfs']),
                                      json_key([len(m['entries']) for m in r['s1']['mfs']]), r['verify1'], r['verify2'])))
    by = {}
    for r in recs:
        k = r['script'].split(':')[0]
        by[k] = by.get(k, 0) + 1
    ctx.extra['runs'] = by
    ctx.sample({'script': recs[0]['script'], 'manifests': [m['p'] for m in recs[0]['s1']['mfs']][:10],
                'verify': recs[0]['verify1']})
    ctx.assumptions += ['scripts run as sub-processes of the same interpreter, unsigned',
                        'single directories are updated with the plain profile and the scripts\' hash set (the ebuild profile '
                        'places Manifests relative to the repository root); timestamp files are removed for standalone runs',
                        'this property has no Layer-A model of its own: the scripts are a second program judged with the same '
                        'Layer-P operators (Glep74!MatchesStrict, UpdateRef!ExactCover clauses)']
    return ctx.finish(rule='generated ::gentoo-shaped repositories with portable names (categories from profiles/categories, packages '
                      'with ebuilds / metadata.xml / nested files/, pre-existing package Manifests carrying DIST entries, eclass, '
                      'licenses, profiles, metadata with dtd/glsa/news/xml-schema/md5-cache, files above 64 KiB); gen_fast_manifest '
                      'on single directories and gen_fast_metamanifest on whole repositories; output projected and judged by '
                      'TraceGen.tla (verifies, exact cover with BLAKE2B+SHA512, update changes nothing semantically, after 0-5 edits '
                      'update restores a verifying tree).')


def c18(ctx):
    from . import drv_outcome as d
    thorough = ctx.tier == 'thorough'
    n = 6000 if thorough else 260
    out = core.pool_map(d.one_tree, [(ctx.seed, i, {}) for i in range(n)], chunksize=2)
    out += core.pool_map(d.text_trees, [(ctx.seed * 16 + k, 400 if thorough else 50) for k in range(16)], chunksize=1)
    recs = [r for o in out for r in o]
    metas = [r.pop('meta') for r in recs]
    for k in range(0, len(recs), 5000):
        ctx.judge('TraceOutcome', 'TraceOutcome.cfg', recs[k:k + 5000], metas[k:k + 5000], {'module': 'TraceOutcome'},
                  sig=lambda r: hash((r['cmd'], r['profile'], r['end'], r['exc'], len(r['s']['nodes']),
                                      json_key([[e['tag'] for e in m['entries']] for m in r['s']['mfs']]))))
    by = {}
    for r in recs:
        key = '%s %s%s' % (r['cmd'], r['end'], ':' + r['exc'] if r['end'] != 'ok' else '')
        by[key] = by.get(key, 0) + 1
    ctx.extra['endings'] = by
    ctx.sample({'cmd': recs[3]['cmd'], 'end': recs[3]['end'], 'exc': recs[3]['exc'], 'notes': metas[3].get('notes')})
    ctx.assumptions += ['C18 has no generator or Layer-A model of its own: it is the union of the other drivers\' inputs under one '
                        'invariant on how a run may end (TraceOutcome.tla)',
                        'an OSError is accepted only with an errno the projected tree explains (ENOENT / ENOTDIR / EISDIR / ELOOP / ENXIO)']
    return ctx.finish(rule='trees of the C01 / C03 generators (mutations, unregistered Manifests) with odd Manifest lines injected '
                      '(duplicate IGNORE, unknown / unsupported hash names, out-of-range and surrogate escapes, impossible timestamps, '
                      'entries naming directories or lying beneath files, dangling MANIFEST entries, empty top-level Manifest) and '
                      'the C09 grammar cases as top-level Manifests, run through `gemato verify` (tree, sub-directory, -k), '
                      '`gemato update` (whole tree and sub-directory, all profiles, odd --hashes) and `gemato create` with every '
                      'profile; every ending judged by TraceOutcome.tla.')


CHECKS = {'C18': c18, 'C20': c20, 'C19': c19, 'C17': c17, 'C06': c06, 'C16': c16, 'C15': c15, 'C14': c14, 'C05': c05, 'C11': c11, 'C03': c03, 'C10': c10, 'C12': c12, 'C13': c13, 'C01': c01, 'C02': c02, 'C04': c04, 'C07': c07, 'C08': c08, 'C09': c09}
